"""Models of the third-party crates: daachorse (leftmost-longest multi-pattern matching) and phf::Set."""
from dataclasses import dataclass
from typing import Any
from .values import *
from .intrinsics import intrinsic, IterBase, some, NONE, ok, as_seq
from . import strings


@dataclass(frozen=True, eq=False)
class AcBuilder:
    kind: Any = None
    type_name = 'CharwiseDoubleArrayAhoCorasickBuilder'


@dataclass(frozen=True, eq=False)
class AcEngine:
    patterns: tuple
    kind: str
    type_name = 'CharwiseDoubleArrayAhoCorasick'

    def same_as(self, o):
        return isinstance(o, AcEngine) and o.patterns == self.patterns and o.kind == self.kind


@dataclass(frozen=True, eq=False)
class AcMatch:
    start: int
    end: int
    value: int
    type_name = 'Match'

    def same_as(self, o):
        return isinstance(o, AcMatch) and (o.start, o.end, o.value) == (self.start, self.end, self.value)


@dataclass(frozen=True, eq=False)
class AcFindIter(IterBase):
    matches: tuple
    pos: int = 0

    def next(self, ex):
        if self.pos >= len(self.matches):
            return NONE, self
        return some(self.matches[self.pos]), AcFindIter(self.matches, self.pos + 1)

    def same_as(self, o):
        return isinstance(o, AcFindIter) and o.pos == self.pos and len(o.matches) == len(self.matches) and all(
            a.same_as(b) for a, b in zip(self.matches, o.matches))


@intrinsic('CharwiseDoubleArrayAhoCorasickBuilder::new')
def ac_builder_new(ex, args):
    return AcBuilder()


@intrinsic('CharwiseDoubleArrayAhoCorasickBuilder::match_kind')
def ac_builder_kind(ex, args):
    k = args[1]
    if isinstance(k, Choice):
        k = ex.concretize(k)
    # daachorse::MatchKind { Standard = 0, LeftmostLongest = 1, LeftmostFirst = 2 }
    return AcBuilder(k)


MATCH_KINDS = ['Standard', 'LeftmostLongest', 'LeftmostFirst']


@intrinsic('CharwiseDoubleArrayAhoCorasickBuilder::build')
def ac_builder_build(ex, args):
    b, pats = args
    seq = as_seq(ex, pats)
    n = concrete_int(seq.len)
    ps = tuple(strings.C(ex, e) for e in seq.elems[:n])
    kind = 'Standard'
    if b.kind is not None:
        if isinstance(b.kind, Enum):
            kind = MATCH_KINDS[concrete_int(b.kind.disc)]
        elif isinstance(b.kind, Struct) and b.kind.ty.split('::')[-1] in MATCH_KINDS:
            kind = b.kind.ty.split('::')[-1]
        else:
            raise Unsupported('daachorse match kind value %r' % (b.kind,))
    if any(p == '' for p in ps) or len(set(ps)) != len(ps):
        # daachorse rejects empty and duplicate patterns
        return Enum('Result', 1, ((1, (Struct('DaachorseError', ()),)),))
    return ok(AcEngine(ps, kind))


def leftmost_matches(patterns, kind, text):
    """non-overlapping leftmost matches as daachorse's leftmost_find_iter yields them: (start_byte, end_byte, id)"""
    out = []
    i = 0
    n = len(text)
    while i < n:
        best = None
        # leftmost: the earliest start position with any match
        for st in range(i, n):
            cands = [(pi, p) for pi, p in enumerate(patterns) if text.startswith(p, st)]
            if cands:
                if kind == 'LeftmostLongest':
                    pi, p = max(cands, key=lambda c: (len(c[1]), -c[0]))
                else:   # LeftmostFirst: earliest pattern in the list
                    pi, p = min(cands, key=lambda c: c[0])
                best = (st, st + len(p), pi)
                break
        if best is None:
            break
        out.append(best)
        i = best[1]
    res = []
    for st, en, pi in out:
        res.append(AcMatch(len(text[:st].encode('utf-8')), len(text[:en].encode('utf-8')), pi))
    return tuple(res)


@intrinsic('CharwiseDoubleArrayAhoCorasick::leftmost_find_iter')
def ac_leftmost_find_iter(ex, args):
    eng, hay = ex.deref(args[0]), strings.C(ex, args[1])
    if eng.kind == 'Standard':
        ex.panic('leftmost_find_iter on an automaton built with MatchKind::Standard')
    return AcFindIter(leftmost_matches(eng.patterns, eng.kind, hay))


@intrinsic('Match::start')
def ac_match_start(ex, args):
    return ex.deref(args[0]).start


@intrinsic('Match::end')
def ac_match_end(ex, args):
    return ex.deref(args[0]).end


@intrinsic('Match::value')
def ac_match_value(ex, args):
    return ex.deref(args[0]).value


# ------------------------------------------------------------------ phf

@intrinsic('Set::contains')
def phf_set_contains(ex, args):
    """phf::Set<&str>::contains: membership in the entries array (the documented contract of a set); the entries are
    read from the MIR constant of the static"""
    st = ex.deref(args[0])
    key = strings.C(ex, args[1])
    entries = phf_entries(ex, st)
    return key in entries


def phf_entries(ex, st):
    cache = ex.const_cache.setdefault('__phf_sets', {})
    k = id(st)
    if k in cache:
        return cache[k][1]
    # Set { map: Map { key, disps, entries: Slice::Static(&[(&str, ())]) } }
    m = st.fields[0]
    entries = m.fields[2]
    if isinstance(entries, Enum):
        entries = entries.payload(concrete_int(entries.disc))[0]
    seq = as_seq(ex, entries)
    out = set()
    for e in seq.elems[:concrete_int(seq.len)]:
        out.add(e[0] if isinstance(e, tuple) else e.fields[0])
    cache[k] = (st, out)
    return out

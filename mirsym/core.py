"""Symbolic executor for parsed MIR.

Execution model
* explicit frame stack for MIR->MIR calls; intrinsics (functions outside the crate) are Python functions
  which may call back into MIR closures (nested run loop).
* a *path* is identified by its list of decisions at symbolic branch points; paths are explored by
  re-execution from the segment's start snapshot following a decision prefix.
* feasibility of a new branch is decided by z3 (incremental), so only feasible panics are recorded.
* designated merge points (calls of Iterator::next on a harness iterator at nesting level 0) pause a path;
  paused paths at the same program point are merged into one symbolic state and resumed together.
"""
import os
import re
import time
import itertools
import z3
from .parse import (Mir, Function, Place, Const, Use, RRef, ROp, RDiscr, RAgg, RCast, RRepeat, Assign, Term,
                    MirUnsupported)
from .resolve import Resolver, norm_type, split_path, strip_generics
from .values import *
from . import values as V


def _sortable(k):
    if k is None:
        return ()
    if isinstance(k, tuple):
        return tuple(_sortable(x) for x in k)
    if isinstance(k, (int, str)):
        return (str(type(k).__name__), k if isinstance(k, int) else 0, k if isinstance(k, str) else '')
    return (repr(k), 0, '')


_VARS_CACHE = {}


def vars_of(e):
    """frozenset of the ids of the uninterpreted constants occurring in a z3 term (cached per term)"""
    if not is_sym(e):
        return frozenset()
    k = e.get_id()
    hit = _VARS_CACHE.get(k)
    if hit is not None and hit[0] is e:
        return hit[1]
    out = set()
    seen = set()
    stack = [e]
    while stack:
        x = stack.pop()
        xid = x.get_id()
        if xid in seen:
            continue
        seen.add(xid)
        sub = _VARS_CACHE.get(xid)
        if sub is not None and sub[0].eq(x):
            out |= sub[1]
            continue
        if z3.is_const(x):
            if x.decl().kind() == z3.Z3_OP_UNINTERPRETED:
                out.add(xid)
            continue
        stack.extend(x.children())
    res = frozenset(out)
    if len(_VARS_CACHE) > 200000:
        _VARS_CACHE.clear()
    _VARS_CACHE[k] = (e, res)
    return res


class _NotConcrete(Exception):
    pass


def _digest(v):
    if isinstance(v, (bool, int, str, float)) or v is None:
        return v
    if isinstance(v, tuple):
        return tuple(_digest(x) for x in v)
    if isinstance(v, Struct):
        return ('S', v.ty) + tuple(_digest(x) for x in v.fields)
    if isinstance(v, Enum):
        if is_sym(v.disc):
            raise _NotConcrete()
        return ('E', v.ty, v.disc) + tuple((i, tuple(_digest(x) for x in f)) for i, f in v.payloads)
    if isinstance(v, Seq):
        if is_sym(v.len):
            raise _NotConcrete()
        return ('Q', v.len) + tuple(_digest(x) for x in v.elems[:v.len])
    if isinstance(v, (Closure, FnItem)):
        return ('C', v.path) + (tuple(_digest(x) for x in v.captures) if isinstance(v, Closure) else ())
    if is_sym(v) or isinstance(v, (Ref, MutSlice, Choice, SymStr)) or v is UNINIT:
        raise _NotConcrete()
    if getattr(v, 'symbolic_input', False):
        raise _NotConcrete()
    if hasattr(v, '__dataclass_fields__'):
        return (type(v).__name__,) + tuple(_digest(getattr(v, f)) for f in v.__dataclass_fields__)
    raise _NotConcrete()


class PathEnd(Exception):
    """current path stops (panic recorded / infeasible / paused)"""


class Paused(PathEnd):
    pass


class PanicRecord:
    def __init__(self, cond, kind, msg, where):
        self.cond = cond      # list of z3 Bool
        self.kind = kind
        self.msg = msg
        self.where = where

    def __repr__(self):
        return 'Panic(%s, %s, %s)' % (self.kind, self.msg, self.where)


class Frame:
    __slots__ = ('fn', 'fid', 'locals', 'block', 'idx', 'dest', 'ret_to', 'is_closure_root')

    def __init__(self, fn, fid):
        self.fn = fn
        self.fid = fid
        self.locals = {}
        self.block = 'bb0'
        self.idx = 0
        self.dest = None      # Place in caller frame
        self.ret_to = None    # block name in caller
        self.is_closure_root = False

    def clone(self):
        f = Frame(self.fn, self.fid)
        f.locals = dict(self.locals)
        f.block = self.block
        f.idx = self.idx
        f.dest = self.dest
        f.ret_to = self.ret_to
        f.is_closure_root = self.is_closure_root
        return f


class Snapshot:
    """full machine state at the start of a segment"""

    def __init__(self, frames, roots, cond, next_fid):
        self.frames = frames          # list[Frame]
        self.roots = roots            # dict name -> value  (harness-owned cells, frame id 'root')
        self.cond = cond              # list of z3 Bool (path condition so far)
        self.next_fid = next_fid
        self.pending_call = None      # (Term) the merge-point call to execute first when resuming
        self.models = []              # witness models of cond

    def clone(self):
        s = Snapshot([f.clone() for f in self.frames], dict(self.roots), list(self.cond), self.next_fid)
        s.pending_call = self.pending_call
        s.models = list(self.models)
        return s


class PathResult:
    def __init__(self, cond, ret, roots):
        self.cond = cond
        self.ret = ret
        self.roots = roots


class Stats:
    def __init__(self):
        self.paths = 0
        self.stmts = 0
        self.solver_checks = 0
        self.solver_time = 0.0
        self.merges = 0
        self.functions = set()
        self.intrinsics = set()
        self.bound_hits = 0
        self.panics_discharged = 0
        self.model_hits = 0
        self.memo_hits = 0
        self.independent_hits = 0


class Executor:
    def __init__(self, mir: Mir, resolver: Resolver, assumptions=(), timeout_ms=20000):
        self.mir = mir
        self.res = resolver
        self.assumptions = list(assumptions)
        self.solver = z3.Solver()
        self.solver.set('timeout', timeout_ms)
        self.dom_solver = z3.Solver()
        self.dom_solver.set('timeout', timeout_ms)
        for a in self.assumptions:
            self.solver.add(a)
            self.dom_solver.add(a)
        self.stats = Stats()
        self.panics = []          # PanicRecord
        self.bound_conds = []     # conditions under which the stated capacity bound was exceeded (outside the claim)
        self.intrinsics = {}
        self.static_dispatch = {}  # e.g. 'Replace::replace' -> callable / def name
        self.const_cache = {}
        self._base_feas = {}
        self._assm_vars = None
        self.memo = {}
        self.memo_suffixes = ('::exec_group', '::lemmatize', '::is_splittable', '::get_morph_marker')
        self.definitions = []     # equations naming merged conditions; must accompany every query about results
        self._callee_cache = {}
        self.cap = 16
        self.use_domains = os.environ.get('MIRSYM_DOMAINS', '0') == '1'
        self.harness_types = {'VTok'}
        self.lift_choices = False
        self._at_merge_next = False
        self.fn_overrides = {}        # MIR definition name -> python model replacing it (harness abstractions)
        self.shape_ignore = set()     # struct types whose contents are data, not control (merged regardless of shape)
        self.merge_policy = 'shape'   # 'shape': merge only states with the same concrete skeleton; 'full'
        self.merge_hook = None    # callable(executor, term, callee, args) -> bool : is this call a merge point?
        self.trace = False
        self.output_events = []   # (pathcond, where) of calls that write to stdout/stderr
        from . import intrinsics as I
        I.install(self)
        self._intrinsic_name = {f: k for k, f in self.intrinsics.items()}

    # ------------------------------------------------------------------ solver / decisions
    def add_assumption(self, a):
        self._assm_vars = None
        self._base_feas = {}
        self.assumptions.append(a)
        self.solver.add(a)
        self.dom_solver.add(a)

    def _check(self, extra):
        t0 = time.time()
        self.solver.push()
        self.solver.add(extra)
        r = self.solver.check()
        self.solver.pop()
        self.stats.solver_checks += 1
        dt = time.time() - t0
        self.stats.solver_time += dt
        if self.trace:
            self._checklog = getattr(self, '_checklog', {})
            k = (self.where() if getattr(self, 'frames', None) else 'batch', str(r))
            a = self._checklog.setdefault(k, [0, 0.0])
            a[0] += 1
            a[1] += dt
        if False:
            import sys
            print('SLOW check %.2fs %s at %s: %s' % (dt, r, self.where(), str(extra)[:300]), file=sys.stderr, flush=True)
        return r

    def feasible(self, cond):
        cb = concrete_bool(cond)
        if cb is not None:
            return cb
        r = self._check(cond)
        return r != z3.unsat

    def choose(self, conds, labels=None):
        """Pick one of the alternatives whose condition is feasible; schedules the others.
        The solver keeps one scope per decision; scopes of a shared prefix are reused between paths.
        Witness models of the current path condition answer most feasibility questions without the solver."""
        k = self._dec_idx
        self._dec_idx += 1
        if k < len(self._prefix):
            choice = self._prefix[k]
        else:
            feas = []
            wit = {}
            undecided = []
            for i, c in enumerate(conds):
                cb = concrete_bool(c)
                if cb is False:
                    continue
                if cb is True:
                    feas.append(i)
                    wit[i] = list(self._models)
                    continue
                ms = [m for m in self._models if z3.is_true(m.eval(c, model_completion=True))]
                if ms:
                    self.stats.model_hits += 1
                    feas.append(i)
                    wit[i] = ms
                    continue
                undecided.append(i)
            if undecided:
                undecided = self._independent_filter(conds, undecided, feas, wit)
            if undecided:
                self._sync_solver()
                if len(undecided) <= 2:
                    for i in undecided:
                        r, m = self._check_model(conds[i])
                        if r != z3.unsat:
                            feas.append(i)
                            wit[i] = [m] if m is not None else []
                else:
                    # enumerate the feasible alternatives with one query per feasible alternative (+1)
                    rest = list(undecided)
                    while rest:
                        r, m = self._check_model(z3.Or(*[conds[i] for i in rest]))
                        if r == z3.unsat:
                            break
                        if m is None:
                            for i in rest:       # unknown: keep everything (sound: extra paths are guarded)
                                feas.append(i)
                                wit[i] = []
                            break
                        hit = [i for i in rest if z3.is_true(m.eval(conds[i], model_completion=True))]
                        if not hit:
                            for i in rest:
                                feas.append(i)
                                wit[i] = []
                            break
                        for i in hit:
                            feas.append(i)
                            wit[i] = [m]
                        rest = [i for i in rest if i not in hit]
                feas.sort()
            if not feas:
                raise PathEnd('infeasible')
            choice = feas[0]
            for alt in reversed(feas[1:]):
                self._worklist.append((self._prefix[:k] + [alt], wit[alt][:3]))
            self._prefix.append(choice)
            self._models = wit[choice][:4]
        c = conds[choice]
        self.pathcond.append(c)
        self._dec_conds.append(c)
        return choice

    def domain_of(self, var):
        """values the variable can take under the assumptions and the condition at the start of the current segment
        (an over-approximation of its values on the current path); cached per segment"""
        k = var.get_id()
        d = self._domains.get(k)
        if d is not None:
            return d
        vals = set()
        self.dom_solver.push()
        try:
            while len(vals) <= 256:
                t0 = time.time()
                r = self.dom_solver.check()
                self.stats.solver_checks += 1
                self.stats.solver_time += time.time() - t0
                if r != z3.sat:
                    if r != z3.unsat:
                        vals = None       # unknown: no pruning
                    break
                v = self.dom_solver.model().eval(var, model_completion=True).as_long()
                vals.add(v)
                self.dom_solver.add(var != v)
        finally:
            self.dom_solver.pop()
        d = frozenset(vals) if vals is not None else None
        self._domains[k] = d
        return d

    def choose_by_domain(self, var, vals, conds):
        """decision on the value of a digit variable: alternatives conds[i] = (var == vals[i]) plus optionally a last
        'none of them'.  Feasibility is over-approximated by the variable's domain at the segment start (no solver call
        per alternative); infeasible survivors are cut later by the exact checks at the leaves."""
        k = self._dec_idx
        if k < len(self._prefix) or not self.use_domains:
            return self.choose(conds)
        dom = self.domain_of(var)
        if dom is None:
            return self.choose(conds)
        self._dec_idx += 1
        feas = [i for i, v in enumerate(vals) if v in dom]
        if len(conds) > len(vals) and (dom - set(vals)):
            feas.append(len(vals))
        # narrow with the decisions already taken on this path when they fix the variable syntactically
        if not feas:
            raise PathEnd('infeasible')
        choice = feas[0]
        for alt in reversed(feas[1:]):
            self._worklist.append((self._prefix[:k] + [alt], []))
        self._prefix.append(choice)
        keep = [m for m in self._models if z3.is_true(m.eval(conds[choice], model_completion=True))]
        self._models = keep
        c = conds[choice]
        self.pathcond.append(c)
        self._dec_conds.append(c)
        return choice

    def _independent_filter(self, conds, undecided, feas, wit):
        """alternatives whose variables (closed under the assumptions) are disjoint from the variables of the path
        condition are feasible iff they are consistent with the assumptions alone (decided once per condition)"""
        pcv = set()
        for c in self.pathcond:
            pcv |= vars_of(c)
        rest = []
        for i in undecided:
            c = conds[i]
            cv = self._closure(vars_of(c))
            if cv & pcv:
                rest.append(i)
                continue
            k = c.get_id()
            hit = self._base_feas.get(k)
            if hit is None or hit[0] is not c:
                r = self._base_solver_check(c)
                hit = (c, r)
                self._base_feas[k] = hit
            if hit[1]:
                self.stats.independent_hits += 1
                feas.append(i)
                wit[i] = []
        return rest

    def _closure(self, vs):
        """variables connected to vs through the assumptions"""
        if self._assm_vars is None:
            self._assm_vars = [vars_of(a) for a in self.assumptions if is_sym(a)]
            self._assm_vars = [a for a in self._assm_vars if len(a) > 1]
        out = set(vs)
        changed = True
        while changed:
            changed = False
            for a in self._assm_vars:
                if a & out and not a <= out:
                    out |= a
                    changed = True
        return out

    def _base_solver_check(self, c):
        s = z3.Solver()
        s.set('timeout', 10000)
        for a in self.assumptions:
            s.add(a)
        s.add(c)
        self.stats.solver_checks += 1
        return s.check() != z3.unsat

    def _check_model(self, extra):
        t0 = time.time()
        self.solver.push()
        self.solver.add(extra)
        r = self.solver.check()
        m = self.solver.model() if r == z3.sat else None
        self.solver.pop()
        self.stats.solver_checks += 1
        dt = time.time() - t0
        self.stats.solver_time += dt
        if self.trace:
            self._checklog = getattr(self, '_checklog', {})
            k = (self.where() if getattr(self, 'frames', None) else 'batch', str(r))
            a = self._checklog.setdefault(k, [0, 0.0])
            a[0] += 1
            a[1] += dt
            if r == z3.unsat and a[0] % 500 == 1:
                import sys
                print('UNSAT sample:', str(extra)[:200].replace(chr(10), ' '), '| decisions on path:',
                      [str(c)[:40] for c in self._dec_conds[-4:]], file=sys.stderr, flush=True)
        return r, m

    def _sync_solver(self):
        """make the solver's scopes reflect the decisions taken so far on this path"""
        have = self._solver_decs          # list of (choice) currently pushed
        want = self._prefix[:len(self._dec_conds)]
        n = 0
        while n < len(have) and n < len(want) and have[n] == want[n]:
            n += 1
        # scopes beyond the common prefix belong to another path
        while len(have) > n:
            self.solver.pop()
            have.pop()
        while len(have) < len(want):
            i = len(have)
            self.solver.push()
            c = self._dec_conds[i]
            if not isinstance(c, bool):
                self.solver.add(c)
            elif c is False:
                self.solver.add(z3.BoolVal(False))
            have.append(want[i])

    def branch(self, cond):
        """symbolic boolean -> Python bool, forking if both outcomes are feasible"""
        cb = concrete_bool(cond)
        if cb is not None:
            return cb
        return self.choose([cond, z3.Not(cond)]) == 0

    def concretize(self, v):
        """Choice -> one alternative (forking)."""
        while isinstance(v, Choice):
            i = self.choose([c for c, _ in v.alts])
            v = v.alts[i][1]
        return v

    def concretize_int(self, x, lo=0, hi=None, what='int'):
        """symbolic small integer -> Python int by forking over its feasible values"""
        ci = concrete_int(x)
        if ci is not None:
            return ci
        hi = self.cap + 4 if hi is None else hi
        conds = [x == i for i in range(lo, hi + 1)]
        rest = z3.Not(z3.Or(*conds)) if conds else True
        i = self.choose(conds + [rest])
        if i == len(conds):
            self.bound_exceeded('value of %s outside [%d,%d]' % (what, lo, hi))
        return lo + i

    def panic(self, kind, msg=''):
        where = self.where()
        self.panics.append(PanicRecord(list(self.pathcond), kind, msg, where))
        raise PathEnd('panic')

    def panic_if(self, cond, kind, msg=''):
        """A panic that happens iff cond.  If cond is not syntactically decided the panic is recorded as *potential*
        (decided in batch at the end of the segment by the solver) and execution continues under Not(cond)."""
        cb = concrete_bool(cond)
        if cb is False:
            return
        if cb is True:
            self.panic(kind, msg)
        self._potential.append(PanicRecord(list(self.pathcond) + [cond], kind, msg, self.where()))
        self.assume_on_path(z3.Not(cond))

    def assume_on_path(self, cond):
        """extend the path condition without a feasibility check (a decision with a single alternative)"""
        k = self._dec_idx
        self._dec_idx += 1
        if k >= len(self._prefix):
            self._prefix.append(0)
        self.pathcond.append(cond)
        self._dec_conds.append(cond)
        if k >= len(self._prefix) - 1:
            self._models = [m for m in self._models if z3.is_true(m.eval(cond, model_completion=True))]

    def discharge_potential(self):
        """decide the potential panics of the finished segment: one query for all, then individually if needed"""
        pots, self._potential = self._potential, []
        if not pots:
            return
        conds = [And(*p.cond) for p in pots]
        r = self._check(Or(*conds))
        if r == z3.unsat:
            self.stats.panics_discharged += len(pots)
            return
        for p, c in zip(pots, conds):
            r = self._check(c)
            if r == z3.unsat:
                self.stats.panics_discharged += 1
            else:
                self.panics.append(p)

    def bound_exceeded(self, what):
        """the path leaves the stated bounds (capacity etc.): it is cut and reported as outside the claim"""
        self.stats.bound_hits += 1
        self.bound_conds.append((list(self.pathcond), what, self.where()))
        raise PathEnd('bound')

    def bound_if(self, cond, what):
        cb = concrete_bool(cond)
        if cb is False:
            return
        if cb is True:
            self.bound_exceeded(what)
        self._potential_bounds.append((list(self.pathcond) + [cond], what, self.where()))
        self.assume_on_path(z3.Not(cond))

    def discharge_bounds(self):
        pots, self._potential_bounds = self._potential_bounds, []
        if not pots:
            return
        conds = [And(*p[0]) for p in pots]
        if self._check(Or(*conds)) == z3.unsat:
            return
        for p, c in zip(pots, conds):
            if self._check(c) != z3.unsat:
                self.stats.bound_hits += 1
                self.bound_conds.append(p)

    def where(self):
        out = []
        for f in self.frames[-3:]:
            out.append('%s@%s' % (f.fn.name.split('>::')[-1], f.block))
        return ' > '.join(out)

    # ------------------------------------------------------------------ memory
    def frame_by_id(self, fid):
        if fid == 'root':
            return None
        for f in reversed(self.frames):
            if f.fid == fid:
                return f
        raise Unsupported('dangling reference to frame %s' % fid)

    def read_cell(self, fid, local):
        if fid == 'root':
            return self.roots[local]
        f = self.frame_by_id(fid)
        v = f.locals.get(local, UNINIT)
        return v

    def write_cell(self, fid, local, v):
        if fid == 'root':
            self.roots[local] = v
        else:
            self.frame_by_id(fid).locals[local] = v

    def read_ref(self, r: Ref):
        v = self.read_cell(r.fid, r.local)
        for step in r.path:
            v = self.project(v, step)
        return v

    def write_ref(self, r: Ref, val):
        base = self.read_cell(r.fid, r.local)
        self.write_cell(r.fid, r.local, self.update(base, r.path, val))

    def deref(self, v):
        """value behind a reference value (snapshots are their own referent)"""
        if isinstance(v, Ref):
            return self.read_ref(v)
        return v

    def project(self, v, step):
        kind = step[0]
        if isinstance(v, Choice):
            if self.lift_choices and len(v.alts) > 1:
                return merge_many([(c, self.project(a, step)) for c, a in v.alts if concrete_bool(c) is not False])
            v = self.concretize(v)
        if kind == 'field':
            n = step[1]
            if isinstance(v, Struct):
                return v.fields[n]
            if isinstance(v, tuple):
                return v[n]
            if isinstance(v, Closure):
                return v.captures[n]
            if isinstance(v, Enum):
                # field of an enum without downcast: single-variant enums
                raise Unsupported('field of enum without downcast')
            if hasattr(v, 'field'):
                return v.field(n)
            raise Unsupported('field %d of %r' % (n, type(v)))
        if kind == 'variant':
            idx = step[1]
            p = v.payload(idx)
            if p is None:
                raise Unsupported('downcast to absent variant %s of %s' % (idx, v.ty))
            return Struct('variant', p)
        if kind == 'idx':
            i = step[1]
            if isinstance(v, Seq):
                return self.seq_get(v, i)
            raise Unsupported('index into %r' % type(v))
        raise Unsupported('projection ' + str(step))

    def update(self, base, path, val):
        if not path:
            return val
        step, rest = path[0], path[1:]
        if isinstance(base, Choice):
            if self.lift_choices and len(base.alts) > 1:
                return Choice(tuple((c, self.update(a, path, val)) for c, a in base.alts))
            base = self.concretize(base)
        kind = step[0]
        if kind == 'field':
            n = step[1]
            if isinstance(base, Struct):
                f = list(base.fields)
                f[n] = self.update(f[n], rest, val)
                return Struct(base.ty, tuple(f))
            if isinstance(base, tuple):
                f = list(base)
                f[n] = self.update(f[n], rest, val)
                return tuple(f)
            if isinstance(base, Closure):
                f = list(base.captures)
                f[n] = self.update(f[n], rest, val)
                return Closure(base.path, tuple(f))
            if hasattr(base, 'with_field'):
                return base.with_field(n, self.update(base.field(n), rest, val))
            raise Unsupported('update field of %r' % type(base))
        if kind == 'variant':
            idx = step[1]
            p = base.payload(idx)
            new = self.update(Struct('variant', p), rest, val)
            return base.with_payload(idx, new.fields)
        if kind == 'idx':
            i = step[1]
            if isinstance(base, Seq):
                ci = concrete_int(i)
                if ci is not None:
                    if ci >= base.cap:
                        raise Unsupported('write beyond capacity')
                    el = list(base.elems)
                    el[ci] = self.update(el[ci], rest, val)
                    return Seq(tuple(el), base.len, base.ety)
                if rest:
                    ci = self.concretize_int(i, 0, base.cap - 1, 'index')
                    return self.update(base, (('idx', ci),) + rest, val)
                w = width_of_type(base.ety) if base.ety else None
                el = [ite(bv(i, 64) == j, val, old, w) for j, old in enumerate(base.elems)]
                return Seq(tuple(el), base.len, base.ety)
            raise Unsupported('update index of %r' % type(base))
        raise Unsupported('update ' + str(step))

    def seq_get(self, s: Seq, i):
        ci = concrete_int(i)
        if ci is not None:
            if ci >= s.cap:
                raise Unsupported('read beyond capacity (index %d, cap %d)' % (ci, s.cap))
            return s.elems[ci]
        res = s.elems[-1]
        w = width_of_type(s.ety) if s.ety else None
        i = bv(i, 64)
        for j in range(s.cap - 2, -1, -1):
            res = ite(i == j, s.elems[j], res, w)
        return res

    # ------------------------------------------------------------------ places / operands
    def resolve_place(self, frame, place: Place):
        """-> ('loc', Ref) or ('val', value): location of the place if reachable through locals/&mut, else the value
        (a projection of a snapshot)."""
        cur_ref = Ref(frame.fid, place.local, ())
        cur_val = None
        is_val = False
        for pj in place.proj:
            kind = pj[0]
            if kind == 'deref':
                v = cur_val if is_val else self.read_ref(cur_ref)
                if isinstance(v, Choice) and any(isinstance(a, (Ref, MutSlice, Choice)) for _, a in v.alts):
                    v = self.concretize(v)
                if isinstance(v, Ref):
                    cur_ref, is_val = v, False
                elif isinstance(v, MutSlice):
                    cur_val, is_val = v, True
                else:
                    cur_val, is_val = v, True      # snapshot
                continue
            if kind == 'field':
                step = ('field', pj[1])
            elif kind == 'downcast':
                v = cur_val if is_val else self.read_ref(cur_ref)
                if isinstance(v, Choice):
                    v = self.concretize(v)
                if not isinstance(v, Enum):
                    raise Unsupported('downcast of %r' % type(v))
                step = ('variant', self.res.variant_index(v.ty, pj[1]))
            elif kind == 'index':
                iv = frame.locals[pj[1]]
                step = ('idx', iv)
                sv = cur_val if is_val else self.read_ref(cur_ref)
                if isinstance(sv, Seq):
                    self.panic_if(z3.UGE(bv(iv, 64), bv(sv.len, 64)) if (is_sym(iv) or is_sym(sv.len)) else iv >= sv.len,
                                  'index out of bounds')
            elif kind == 'cindex':
                step = ('idx', pj[1])
            else:
                raise Unsupported('projection ' + kind)
            if is_val:
                cur_val = self.project(cur_val, step)
            else:
                cur_ref = Ref(cur_ref.fid, cur_ref.local, cur_ref.path + (step,))
        if is_val:
            return 'val', cur_val
        return 'loc', cur_ref

    def read_place(self, frame, place: Place):
        if not place.proj:
            v = frame.locals.get(place.local, UNINIT)
            return v
        k, x = self.resolve_place(frame, place)
        if k == 'val':
            return x
        return self.read_ref(x)

    def write_place(self, frame, place: Place, val):
        if not place.proj:
            frame.locals[place.local] = val
            return
        k, x = self.resolve_place(frame, place)
        if k == 'val':
            raise Unsupported('write through a shared reference snapshot: %s' % (place,))
        self.write_ref(x, val)

    def place_type(self, frame, place: Place):
        ty = frame.fn.locals.get(place.local, '')
        for pj in place.proj:
            if pj[0] == 'field':
                ty = pj[2]
            elif pj[0] == 'deref':
                ty = ty.strip()
                if ty.startswith('&'):
                    ty = re.sub(r"^&('[a-z_]+ )?(mut )?", '', ty)
            elif pj[0] in ('index', 'cindex'):
                ty = ty.strip()
                m = re.match(r'^\[(.*?)(; \d+)?\]$', ty)
                ty = m.group(1) if m else ''
            else:
                ty = ''
        return ty

    def operand_type(self, frame, op):
        if isinstance(op, Const):
            return op.ty
        if isinstance(op, Use):
            return self.place_type(frame, op.place)
        return ''

    def eval_const(self, c: Const):
        k = c.kind
        if k in ('int', 'bool', 'str', 'char', 'float'):
            return c.value
        if k == 'unit':
            return UNIT
        if k == 'bytes':
            return seq_from_bytes(c.value)
        if k == 'zst':
            t = c.ty
            if t.startswith('{closure@'):
                return Closure(t, ())
            return FnItem(t)
        if k == 'fnitem':
            return FnItem(c.value)
        if k == 'zststruct':
            return Struct(norm_type(c.ty), ())
        if k == 'alloc':
            name = self.mir.allocs_static.get(c.value)
            if name is None:
                raise Unsupported('reference to anonymous allocation ' + c.value)
            return self.eval_item(name)
        if k == 'item':
            return self.eval_item(c.value)
        raise Unsupported('const kind ' + k)

    def eval_item(self, path):
        if path in self.const_cache:
            return self.const_cache[path]
        name = self.res.resolve_path(path) if path not in self.mir.functions else path
        if name is None:
            v = self.extern_const(path)
        else:
            fns = self.mir.functions[name]
            fn = fns[-1]
            if fn.kind == 'fn':
                v = FnItem(path)
            else:
                v = self.call_nested(fn, [])
        self.const_cache[path] = v
        return v

    def extern_const(self, path):
        p = norm_type(path)
        if p.endswith('usize::MAX') or p.endswith('u64::MAX'):
            return (1 << 64) - 1
        raise Unsupported('external constant ' + path)

    def eval_operand(self, frame, op):
        if isinstance(op, Const):
            return self.eval_const(op)
        if isinstance(op, Use):
            v = self.read_place(frame, op.place)
            if v is UNINIT:
                raise Unsupported('read of uninitialised %s in %s' % (op.place, frame.fn.name))
            return v
        raise Unsupported('operand %r' % (op,))

    # ------------------------------------------------------------------ rvalues
    def eval_rvalue(self, frame, rv, dest_ty=''):
        if isinstance(rv, (Const, Use)):
            return self.eval_operand(frame, rv)
        if isinstance(rv, RRef):
            if rv.mut:
                k, x = self.resolve_place(frame, rv.place)
                if k == 'val':
                    if isinstance(x, MutSlice):
                        return x
                    raise Unsupported('&mut of a snapshot')
                # reborrow of a &mut: `&mut (*_1)` gives the same reference
                return x
            k, x = self.resolve_place(frame, rv.place)
            if k == 'val':
                return x
            v = self.read_ref(x)
            if isinstance(v, MutSlice):
                return self.mutslice_read(v)
            return v
        if isinstance(rv, ROp):
            return self.eval_op(frame, rv, dest_ty)
        if isinstance(rv, RDiscr):
            v = self.read_place(frame, rv.place)
            if isinstance(v, Choice):
                v = self.concretize(v)
            if isinstance(v, Enum):
                return v.disc
            raise Unsupported('discriminant of %r' % type(v))
        if isinstance(rv, RAgg):
            return self.eval_agg(frame, rv)
        if isinstance(rv, RCast):
            v = self.eval_operand(frame, rv.operand)
            kind = rv.kind
            if kind.startswith('PointerCoercion(Unsize'):
                return v
            if kind in ('IntToInt',):
                w = width_of_type(rv.ty)
                if w is None or rv.ty.strip().startswith('i'):
                    raise Unsupported('cast to ' + rv.ty)
                if is_sym(v):
                    return bv(v, w)
                return int(v) & ((1 << w) - 1)
            if kind.startswith('PointerCoercion(ReifyFnPointer') or kind.startswith('PointerCoercion(ClosureFnPointer'):
                return v
            raise Unsupported('cast kind ' + kind)
        if isinstance(rv, RRepeat):
            v = self.eval_operand(frame, rv.operand)
            n = int(re.match(r'(?:const )?(\d+)', rv.count).group(1))
            return Seq(tuple([v] * n), n, '')
        raise Unsupported('rvalue %r' % (rv,))

    def eval_agg(self, frame, rv: RAgg):
        vals = tuple(self.eval_operand(frame, f) for f in rv.fields)
        if rv.kind == 'tuple':
            return vals
        if rv.kind == 'array':
            return Seq(vals, len(vals), '')
        if rv.kind == 'closure':
            return Closure(rv.path, vals)
        ev = self.res.is_enum_variant_path(rv.path)
        if ev:
            enum, variant = ev
            idx = self.res.variant_index(enum, variant)
            return Enum(enum, idx, ((idx, vals),))
        ty = norm_type(rv.path)
        if ty in ('std::ops::Range', 'Range', 'std::ops::RangeFrom', 'RangeFrom', 'std::ops::RangeTo', 'RangeTo',
                  'std::ops::RangeInclusive'):
            ty = ty.split('::')[-1]
        return Struct(ty, vals)

    def int_width(self, frame, ops, vals):
        for o in ops:
            t = self.operand_type(frame, o)
            w = width_of_type(t) if t else None
            if w:
                if t.strip()[0] == 'i' and not self._signed_ok:
                    raise Unsupported('signed arithmetic on ' + t)
                return w
        for v in vals:
            if isinstance(v, z3.BitVecRef):
                return v.size()
            if isinstance(v, (bool, z3.BoolRef)):
                return 1
        return 64

    def eval_op(self, frame, rv: ROp, dest_ty=''):
        op = rv.op
        vals = [self.eval_operand(frame, a) for a in rv.args]
        # enum discriminants are compared as isize; equality is sign-agnostic
        self._signed_ok = op in ('Eq', 'Ne')
        if op == 'PtrMetadata':
            v = vals[0]
            if isinstance(v, Seq):
                return v.len
            if isinstance(v, MutSlice):
                return v.len
            if isinstance(v, str):
                return len(v.encode('utf-8'))
            if isinstance(v, SymStr):
                return v.seq.len
            raise Unsupported('PtrMetadata of %r' % type(v))
        if op == 'Not':
            v = vals[0]
            if isinstance(v, bool):
                return not v
            if isinstance(v, z3.BoolRef):
                return z3.Not(v)
            w = self.int_width(frame, rv.args, vals)
            if is_sym(v):
                return ~bv(v, w)
            return (~v) & ((1 << w) - 1)
        if op == 'Neg':
            raise Unsupported('Neg')
        a, b = vals
        if isinstance(a, Choice):
            a = self.concretize(a)
        if isinstance(b, Choice):
            b = self.concretize(b)
        if op in ('Lt', 'Le', 'Gt', 'Ge', 'Eq', 'Ne'):
            r = None
            if hasattr(a, 'compare_const') and isinstance(b, float):
                r = a.compare_const(op, b)
            elif hasattr(b, 'compare_const') and isinstance(a, float):
                r = b.compare_const({'Lt': 'Gt', 'Le': 'Ge', 'Gt': 'Lt', 'Ge': 'Le', 'Eq': 'Eq', 'Ne': 'Ne'}[op], a)
            if isinstance(r, tuple):
                # exact only for values of at most 15 digits: longer ones are outside the stated bounds
                self.bound_if(z3.Not(r[1]), 'numeric value with more than 15 digits compared as a float')
                r = r[2]
            if r is not None:
                return r
        if hasattr(a, 'to_fp'):
            a = a.to_fp()
        if hasattr(b, 'to_fp'):
            b = b.to_fp()
        sym = is_sym(a) or is_sym(b)
        boolish = isinstance(a, (bool, z3.BoolRef)) or isinstance(b, (bool, z3.BoolRef))
        floatish = isinstance(a, (float, z3.FPRef)) or isinstance(b, (float, z3.FPRef))
        if floatish:
            return self.float_op(op, a, b)
        if boolish:
            if op in ('Eq', 'Ne', 'BitAnd', 'BitOr', 'BitXor'):
                if not sym:
                    return {'Eq': a == b, 'Ne': a != b, 'BitAnd': a and b, 'BitOr': a or b, 'BitXor': a != b}[op]
                za, zb = zbool(a), zbool(b)
                return {'Eq': za == zb, 'Ne': za != zb, 'BitAnd': z3.And(za, zb), 'BitOr': z3.Or(za, zb),
                        'BitXor': z3.Xor(za, zb)}[op]
            raise Unsupported('bool op ' + op)
        w = self.int_width(frame, rv.args, vals)
        mask = (1 << w) - 1
        if not sym:
            if op == 'Eq':
                return a == b
            if op == 'Ne':
                return a != b
            if op == 'Lt':
                return a < b
            if op == 'Le':
                return a <= b
            if op == 'Gt':
                return a > b
            if op == 'Ge':
                return a >= b
            if op in ('Add', 'AddUnchecked'):
                return (a + b) & mask
            if op in ('Sub', 'SubUnchecked'):
                return (a - b) & mask
            if op in ('Mul', 'MulUnchecked'):
                return (a * b) & mask
            if op == 'BitAnd':
                return a & b
            if op == 'BitOr':
                return a | b
            if op == 'BitXor':
                return a ^ b
            if op == 'AddWithOverflow':
                r = a + b
                return (r & mask, r > mask)
            if op == 'SubWithOverflow':
                r = a - b
                return (r & mask, r < 0)
            if op == 'MulWithOverflow':
                r = a * b
                return (r & mask, r > mask)
            if op == 'Shl':
                return (a << b) & mask
            if op == 'Shr':
                return a >> b
            if op == 'Div':
                if b == 0:
                    self.panic('division by zero')
                return a // b
            if op == 'Rem':
                if b == 0:
                    self.panic('remainder by zero')
                return a % b
            raise Unsupported('binop ' + op)
        za, zb = bv(a, w), bv(b, w)
        if op == 'Eq':
            return za == zb
        if op == 'Ne':
            return za != zb
        if op == 'Lt':
            return z3.ULT(za, zb)
        if op == 'Le':
            return z3.ULE(za, zb)
        if op == 'Gt':
            return z3.UGT(za, zb)
        if op == 'Ge':
            return z3.UGE(za, zb)
        if op in ('Add', 'AddUnchecked'):
            return za + zb
        if op in ('Sub', 'SubUnchecked'):
            return za - zb
        if op in ('Mul', 'MulUnchecked'):
            return za * zb
        if op == 'BitAnd':
            return za & zb
        if op == 'BitOr':
            return za | zb
        if op == 'BitXor':
            return za ^ zb
        if op == 'AddWithOverflow':
            return (za + zb, z3.Not(z3.BVAddNoOverflow(za, zb, False)))
        if op == 'SubWithOverflow':
            return (za - zb, z3.ULT(za, zb))
        if op == 'MulWithOverflow':
            return (za * zb, z3.Not(z3.BVMulNoOverflow(za, zb, False)))
        raise Unsupported('symbolic binop ' + op)

    def float_op(self, op, a, b):
        if not is_sym(a) and not is_sym(b):
            return {'Eq': a == b, 'Ne': a != b, 'Lt': a < b, 'Le': a <= b, 'Gt': a > b, 'Ge': a >= b}[op] \
                if op in ('Eq', 'Ne', 'Lt', 'Le', 'Gt', 'Ge') else self._float_arith(op, a, b)
        fa = a if is_sym(a) else z3.FPVal(a, z3.Float64())
        fb = b if is_sym(b) else z3.FPVal(b, z3.Float64())
        if op == 'Eq':
            return z3.fpEQ(fa, fb)
        if op == 'Ne':
            return z3.Not(z3.fpEQ(fa, fb))
        if op == 'Lt':
            return z3.fpLT(fa, fb)
        if op == 'Le':
            return z3.fpLEQ(fa, fb)
        if op == 'Gt':
            return z3.fpGT(fa, fb)
        if op == 'Ge':
            return z3.fpGEQ(fa, fb)
        raise Unsupported('symbolic float op ' + op)

    def _float_arith(self, op, a, b):
        if op == 'Add':
            return a + b
        if op == 'Sub':
            return a - b
        if op == 'Mul':
            return a * b
        if op == 'Div':
            return a / b if b != 0 else (float('inf') if a > 0 else float('-inf') if a < 0 else float('nan'))
        raise Unsupported('float op ' + op)

    # ------------------------------------------------------------------ mutable slices
    def mutslice_read(self, ms: MutSlice) -> Seq:
        owner = self.read_ref(ms.ref)
        return self.seq_slice(owner, ms.start, ms.len)

    def seq_slice(self, s: Seq, start, ln):
        cs, cl = concrete_int(start), concrete_int(ln)
        if cs is not None and cl is not None and not is_sym(s.len):
            return Seq(s.elems[cs:cs + cl], cl, s.ety)
        if cs is not None:
            elems = s.elems[cs:]
            if cl is not None:
                elems = elems[:cl]
            return Seq(tuple(elems), ln, s.ety)
        # symbolic start: element i = s[start + i]
        st = bv(start, 64)
        elems = tuple(self.seq_get(s, st + i) for i in range(s.cap))
        return Seq(elems, ln, s.ety)

    def mutslice_write(self, ms: MutSlice, data: Seq):
        """overwrite the slice's range with data (same length; caller checked)"""
        owner = self.read_ref(ms.ref)
        cs = concrete_int(ms.start)
        cl = concrete_int(data.len)
        w = width_of_type(owner.ety) if owner.ety else None
        if cs is not None and cl is not None:
            el = list(owner.elems)
            if cs + cl > len(el):
                raise Unsupported('slice write beyond capacity')
            for i in range(cl):
                el[cs + i] = data.elems[i]
            self.write_ref(ms.ref, Seq(tuple(el), owner.len, owner.ety))
            return
        st = bv(ms.start, 64)
        ln = bv(data.len, 64)
        el = []
        for j, old in enumerate(owner.elems):
            inside = z3.And(z3.ULE(st, j), z3.ULT(z3.BitVecVal(j, 64), st + ln))
            new = self.seq_get(data, z3.BitVecVal(j, 64) - st) if data.cap else old
            el.append(ite(inside, new, old, w))
        self.write_ref(ms.ref, Seq(tuple(el), owner.len, owner.ety))

    # ------------------------------------------------------------------ calls
    def new_frame(self, fn: Function, args):
        fr = Frame(fn, self.next_fid)
        self.next_fid += 1
        if len(args) != len(fn.params):
            raise Unsupported('arity mismatch calling %s: %d vs %d' % (fn.name, len(args), len(fn.params)))
        for (p, _), a in zip(fn.params, args):
            fr.locals[p] = a
        self.stats.functions.add(fn.name)
        return fr

    def call_nested(self, fn: Function, args):
        """run a MIR function to completion from Python (const evaluation, closures); forks propagate normally"""
        fr = self.new_frame(fn, args)
        fr.is_closure_root = True
        self.frames.append(fr)
        self.nesting += 1
        try:
            ret = self.run_loop(len(self.frames) - 1)
        finally:
            self.nesting -= 1
        return ret

    def call_value(self, f, args):
        """call a closure / fn item value from an intrinsic"""
        if isinstance(f, Choice):
            f = self.concretize(f)
        if isinstance(f, Ref):
            f = self.read_ref(f)
        if isinstance(f, Closure):
            name = self.res.closure_defs.get(f.path)
            if name is None:
                raise Unsupported('closure body not found: ' + f.path)
            fn = self.mir.functions[name][-1]
            # closure fn takes (&mut closure | closure, args...) -- arguments may be passed as one tuple
            return self.call_nested(fn, [f] + list(args))
        if isinstance(f, FnItem):
            return self.call_path(f.path, list(args))
        raise Unsupported('call of %r' % type(f))

    def call_path(self, path, args):
        """call by path from Python; returns value (nested)"""
        target = self.lookup_callee(path, args)
        if isinstance(target, Function):
            return self.call_nested(target, args)
        return target(self, args)

    def type_name_of(self, v):
        v = self.deref(v)
        if isinstance(v, Choice):
            # all alternatives of one type: no need to fork to know the receiver type
            names = set()
            for _, a in v.alts:
                names.add(a.ty if isinstance(a, (Struct, Enum)) else getattr(a, 'type_name', None) if not isinstance(a, Choice) else '?')
            if len(names) == 1 and '?' not in names:
                return names.pop()
            v = self.concretize(v)
        if isinstance(v, Struct):
            return v.ty
        if isinstance(v, Enum):
            return v.ty
        if hasattr(v, 'type_name'):
            return v.type_name
        return None

    def lookup_callee(self, path, args):
        """-> Function (MIR) or python callable(executor, args)"""
        recv = self.type_name_of(args[0]) if args else None
        ck = (path, recv)
        hit = self._callee_cache.get(ck)
        if hit is not None:
            if not isinstance(hit, Function):
                self.stats.intrinsics.add(hit[1])
                return hit[0]
            return hit
        sd = self._static_dispatch_for(path)
        if sd is not None:
            return sd
        if recv in self.harness_types:
            # a harness-implemented type: its trait methods are the registered models, never the trait's defaults
            ik = self.intrinsic_key(path)
            f = self.intrinsics.get(ik)
            if f is not None:
                self._callee_cache[ck] = (f, ik)
                return f
        name = self.res.resolve_path(path, recv)
        if name is not None:
            fn = self.mir.functions[name][-1]
            self._callee_cache[ck] = fn
            return fn
        ik = self.intrinsic_key(path)
        f = self.intrinsics.get(ik)
        if f is None:
            raise Unsupported('no model for external function %s (key %s)' % (path, ik))
        self.stats.intrinsics.add(ik)
        self._callee_cache[ck] = (f, ik)
        return f

    def _static_dispatch_for(self, path):
        for k, v in self.static_dispatch.items():
            if k in path:
                return v
        return None

    def intrinsic_key(self, path):
        """normalise an external callee path to a short key"""
        path = path.strip()
        if path.startswith('<'):
            from .parse import match_close, find_top
            e = match_close(path, 0)
            inner = path[1:e]
            rest = [strip_generics(s) for s in split_path(path[e + 1:].lstrip(':'))]
            rest = [s for s in rest if s]
            k = find_top(inner, ' as ')
            if k >= 0:
                trait = norm_type(inner[k + 4:]).split('::')[-1]
                return trait + '::' + '::'.join(rest)
            return norm_type(inner).split('::')[-1] + '::' + '::'.join(rest)
        segs = split_path(path)
        for i, s in enumerate(segs):
            if s.startswith('<impl '):
                ty = s[len('<impl '):-1]
                ty = re.sub(r'<.*>', '', ty).strip()
                return ty + '::' + '::'.join(strip_generics(x) for x in segs[i + 1:])
        segs = [strip_generics(s) for s in segs]
        segs = [s for s in segs if s]
        return '::'.join(segs[-2:]) if len(segs) >= 2 else segs[0]

    # ------------------------------------------------------------------ main loop
    def run_loop(self, base_depth):
        """run until the frame at index base_depth returns; return its value"""
        frames = self.frames
        while True:
            fr = frames[-1]
            blk = fr.fn.blocks[fr.block]
            stmts = blk.stmts
            n = len(stmts)
            while fr.idx < n:
                st = stmts[fr.idx]
                fr.idx += 1
                self.stats.stmts += 1
                dest_ty = ''
                if isinstance(st.rv, ROp):
                    dest_ty = self.place_type(fr, st.dest)
                v = self.eval_rvalue(fr, st.rv, dest_ty)
                self.write_place(fr, st.dest, v)
            t = blk.term
            self.stats.stmts += 1
            k = t.kind
            if k == 'goto':
                fr.block, fr.idx = t.targets['goto'], 0
            elif k == 'switch':
                v = self.eval_operand(fr, t.operand)
                if isinstance(v, Choice):
                    v = self.concretize(v)
                fr.block, fr.idx = self.switch_target(fr, t, v), 0
            elif k == 'return':
                ret = fr.locals.get('_0', UNINIT)
                if ret is UNINIT:
                    rt = fr.fn.ret.strip()
                    ret = UNIT if rt in ('()', '!') else Struct(norm_type(rt), ())
                frames.pop()
                if len(frames) == base_depth:
                    return ret
                caller = frames[-1]
                self.write_place(caller, fr.dest, ret)
                caller.block, caller.idx = fr.ret_to, 0
            elif k == 'call':
                self.do_call(fr, t)
            elif k == 'assert':
                v = self.eval_operand(fr, t.operand)
                ok = Not(v) if t.negate else v
                self.panic_if(Not(ok), 'assert', t.msg)
                fr.block, fr.idx = t.targets['success'], 0
            elif k == 'drop':
                fr.block, fr.idx = t.targets['return'], 0
            elif k == 'unreachable':
                # reaching `unreachable` would be UB; in safe code it is dead. Report as unsupported to be safe.
                raise Unsupported('reached unreachable in ' + fr.fn.name)
            elif k == 'resume':
                raise Unsupported('reached resume (unwinding) in ' + fr.fn.name)
            else:
                raise Unsupported('terminator ' + k)

    def switch_target(self, fr, t, v):
        targets = t.targets
        if isinstance(v, bool):
            v = int(v)
        if isinstance(v, int):
            key = str(v)
            if key in targets:
                return targets[key]
            return targets['otherwise']
        # symbolic
        keys = [k for k in targets if k != 'otherwise']
        if isinstance(v, z3.BoolRef):
            conds = []
            for k in keys:
                conds.append(v if int(k) != 0 else z3.Not(v))
            if 'otherwise' in targets:
                rest = [z3.Not(c) for c in conds]
                conds.append(z3.And(*rest) if len(rest) > 1 else rest[0])
                keys = keys + ['otherwise']
        else:
            conds = [v == int(k) for k in keys]
            if 'otherwise' in targets:
                conds.append(z3.And(*[v != int(k) for k in keys]))
                keys = keys + ['otherwise']
        i = self.choose(conds)
        return targets[keys[i]]

    def do_call(self, fr, t: Term):
        args = [self.eval_operand(fr, a) for a in t.args]
        if isinstance(t.callee, Use):
            f = self.eval_operand(fr, t.callee)
            ret = self.call_value(f, args)
            self.finish_call(fr, t, ret)
            return
        path = t.callee
        if self.merge_hook is not None and self.nesting == 0 and not self._resuming and self.merge_hook(self, t, path, args):
            snap = Snapshot([f.clone() for f in self.frames], dict(self.roots), list(self.pathcond), self.next_fid)
            snap.pending_call = t
            self._paused = snap
            raise Paused('merge point')
        if self._resuming:
            self._at_merge_next = True      # the resumed call is the merge-point Iterator::next
        self._resuming = False
        target = self.lookup_callee(path, args)
        if isinstance(target, Function) and target.name in self.fn_overrides:
            ret = self.fn_overrides[target.name](self, args)
            if ret is not NotImplemented:
                self.finish_call(fr, t, ret)
                return
        if isinstance(target, Function) and self.memo_suffixes and target.name.endswith(self.memo_suffixes) \
                and 'return' in t.targets:
            key = self._memo_key(target, args)
            if key is not None:
                hit = self.memo.get(key)
                if hit is not None:
                    self.stats.memo_hits += 1
                    self.finish_call(fr, t, hit[0])
                    return
                marks = (len(self._potential), len(self.panics), len(self.output_events), self._dec_idx)
                ret = self.call_nested(target, args)
                if marks == (len(self._potential), len(self.panics), len(self.output_events), self._dec_idx):
                    self.memo[key] = (ret,)
                self.finish_call(fr, t, ret)
                return
        if isinstance(target, Function):
            if 'return' not in t.targets:
                # diverging call (panic helpers are external, so this is a crate fn that never returns)
                pass
            nf = self.new_frame(target, args)
            nf.dest = t.dest
            nf.ret_to = t.targets.get('return')
            self.frames.append(nf)
            return
        ret = self.call_intrinsic(target, args)
        self.finish_call(fr, t, ret)

    LIFTABLE = {'PartialEq::eq', 'PartialEq::ne', 'str::len', 'String::len', 'str::is_empty', 'str::contains', 'str::ends_with',
                'str::starts_with', 'str::trim_end_matches', 'str::trim_start_matches', 'str::trim', 'str::to_lowercase', 'str::to_ascii_lowercase',
                'str::chars', 'str::bytes', 'u8::is_ascii_whitespace', 'str::split', 'Iterator::all', 'Iterator::any', 'Token::text', 'Token::text_lowercase',
                'Token::nt_separated', 'Token::not_a_number_part', 'Set::contains', 'String::as_str', 'Deref::deref',
                'char::is_whitespace', 'char::is_ascii_whitespace', 'char::is_alphabetic', 'char::is_alphanumeric',
                'Iterator::last', 'CharwiseDoubleArrayAhoCorasick::leftmost_find_iter', 'ToOwned::to_owned',
                'Borrow::borrow', 'str::to_owned', 'ToString::to_string', 'BasicAnnotate::text_lowercase'}

    def call_intrinsic(self, f, args):
        """call a model; with lift_choices, pure models are mapped over the alternatives of a Choice argument (no fork)"""
        if not self.lift_choices:
            return f(self, args)
        key = self._intrinsic_name.get(f)
        if key not in self.LIFTABLE:
            return f(self, args)
        for i, a in enumerate(args):
            v = a
            if isinstance(a, Ref) and key in ('Iterator::all', 'Iterator::any'):
                v = self.read_ref(a)
            if isinstance(v, Choice) and len(v.alts) > 1:
                outs = []
                for cond, alt in v.alts:
                    if concrete_bool(cond) is False:
                        continue
                    a2 = list(args)
                    a2[i] = alt
                    outs.append((cond, self.call_intrinsic(f, a2)))
                return merge_many(outs)
        return f(self, args)

    def _memo_key(self, fn, args):
        """hashable digest of fully concrete, reference-free arguments (else None)"""
        try:
            return (fn.name,) + tuple(_digest(a) for a in args)
        except _NotConcrete:
            return None

    def finish_call(self, fr, t, ret):
        if 'return' not in t.targets:
            raise Unsupported('external diverging call returned: %s' % t.callee)
        self.write_place(fr, t.dest, ret)
        fr.block, fr.idx = t.targets['return'], 0

    # ------------------------------------------------------------------ exploration
    def explore(self, fn_name, args, roots=None, merge=True):
        """Run fn on args from a fresh state over all paths.
        Returns list[PathResult].  Panics go to self.panics."""
        fn = self.mir.functions[fn_name][-1] if isinstance(fn_name, str) else fn_name
        self.next_fid = 1
        self.frames = []
        fr = self.new_frame(fn, args)
        snap = Snapshot([fr], dict(roots or {}), [], self.next_fid)
        return self.explore_from(snap)

    def explore_with_cond(self, fn_name, args, roots, cond):
        """like explore, but the paths start under the given path condition (list of z3 Bools)"""
        fn = self.mir.functions[fn_name][-1] if isinstance(fn_name, str) else fn_name
        self.next_fid = 1
        self.frames = []
        fr = self.new_frame(fn, args)
        snap = Snapshot([fr], dict(roots or {}), [c for c in cond if not (isinstance(c, bool) and c)], self.next_fid)
        return self.explore_from(snap)

    def explore_from(self, snap):
        """explore all paths from snap; paused paths are grouped by (program point, iterator position) and the
        group that is least advanced is merged and resumed first, so every group is explored once."""
        finished = []
        pending = {}          # key -> list of snapshots
        order = {}            # key -> sortable
        fin, paused = self.explore_segment(snap)
        finished.extend(fin)
        while True:
            for p in paused:
                k = self.snapshot_key(p)
                pending.setdefault(k, []).append(p)
            if not pending:
                break
            key = min(pending, key=lambda k: (repr(k[1]) if k[1] is None else '', _sortable(k[1]), len(k[0])))
            group = pending.pop(key)
            if self.trace:
                import sys
                print('segment', key[1], 'merging', len(group), 'pending groups', len(pending), 'paths', self.stats.paths,
                      'checks', self.stats.solver_checks, round(self.stats.solver_time, 1), file=sys.stderr, flush=True)
            fin, paused = self.explore_segment(self.merge_snapshots(group))
            finished.extend(fin)
        return finished

    def explore_segment(self, start: Snapshot):
        finished, paused = [], []
        self._worklist = [([], list(start.models))]
        self._domains = {}
        self.dom_solver.push()
        for c in start.cond:
            if not isinstance(c, bool):
                self.dom_solver.add(c)
        self._solver_decs = []
        self._potential = []
        self._potential_bounds = []
        self.solver.push()
        for c in start.cond:
            if not isinstance(c, bool):
                self.solver.add(c)
        try:
            while self._worklist:
                prefix, models = self._worklist.pop()
                self._models = list(models)
                s = start.clone()
                self.frames = s.frames
                self.roots = s.roots
                self.pathcond = list(s.cond)
                self.next_fid = s.next_fid
                self._prefix = prefix
                self._dec_idx = 0
                self._dec_conds = []
                self._paused = None
                self._resuming = s.pending_call is not None
                self.nesting = 0
                self.stats.paths += 1
                try:
                    ret = self.run_loop(0)
                    finished.append(PathResult(list(self.pathcond), ret, dict(self.roots)))
                except Paused:
                    self._paused.models = list(self._models)
                    self.drop_dead_locals(self._paused)
                    paused.append(self._paused)
                except PathEnd:
                    pass
        finally:
            while self._solver_decs:
                self.solver.pop()
                self._solver_decs.pop()
            self.solver.pop()
            self.dom_solver.pop()
        self.panics.extend(self._potential)
        self.bound_conds.extend(self._potential_bounds)
        self._potential, self._potential_bounds = [], []
        return finished, paused

    def drop_dead_locals(self, snap: Snapshot):
        from .liveness import liveness
        n = len(snap.frames)
        for i, f in enumerate(snap.frames):
            lv = liveness(f.fn)
            live = lv.live_at_terminator(f.block) if i == n - 1 else lv.live_after_call(f.block)
            for name in list(f.locals):
                if name not in live:
                    del f.locals[name]

    def shape_of(self, v, depth=0):
        """the concrete skeleton of a value: states are merged only if their skeletons agree"""
        if isinstance(v, bool):
            return v
        if isinstance(v, (int, float, str)) or is_sym(v) or v is None or v is UNINIT:
            return None
        if isinstance(v, tuple):
            return tuple(self.shape_of(x, depth + 1) for x in v)
        if isinstance(v, Struct):
            if v.ty in self.shape_ignore:
                return (v.ty,)
            return (v.ty,) + tuple(self.shape_of(x, depth + 1) for x in v.fields)
        if isinstance(v, Enum):
            d = concrete_int(v.disc) if not is_sym(v.disc) else None
            if d is None:
                return (v.ty, '*')
            p = v.payload(d)
            return (v.ty, d) + (tuple(self.shape_of(x, depth + 1) for x in p) if p else ())
        if isinstance(v, Seq):
            ln = v.len if not is_sym(v.len) else '*'
            scalar = all(isinstance(e, int) or is_sym(e) or e is UNINIT for e in v.elems)
            if scalar:
                return ('seq', ln)
            return ('seq', ln) + tuple(self.shape_of(e, depth + 1) for e in v.elems)
        if isinstance(v, SymStr):
            return ('symstr', v.seq.len if not is_sym(v.seq.len) else '*')
        if isinstance(v, Choice):
            return ('choice',)
        if isinstance(v, (Ref, MutSlice)):
            return None
        if hasattr(v, 'shape'):
            return v.shape(self)
        if hasattr(v, '__dataclass_fields__'):
            return (type(v).__name__,) + tuple(self.shape_of(getattr(v, f), depth + 1) for f in v.__dataclass_fields__)
        return None

    def snapshot_key(self, s: Snapshot):
        key = []
        for f in s.frames:
            key.append((f.fn.name, f.block, f.idx, f.fid))
        it = None
        t = s.pending_call
        if t is not None:
            fr = s.frames[-1]
            # the receiver iterator's concrete position distinguishes rounds
            try:
                saved = (self.frames, self.roots)
                self.frames, self.roots = s.frames, s.roots
                a0 = self.deref(self.eval_operand(fr, t.args[0]))
                it = getattr(a0, 'merge_key', lambda: None)()
            finally:
                self.frames, self.roots = saved
        shape = None
        if self.merge_policy == 'shape':
            sh = []
            for f in s.frames:
                for name in sorted(f.locals):
                    sh.append(self.shape_of(f.locals[name]))
            for name in sorted(s.roots):
                sh.append(self.shape_of(s.roots[name]))
            shape = repr(sh)
        return (tuple(key), it, shape)

    def merge_snapshots(self, snaps):
        if len(snaps) == 1:
            return snaps[0]
        self.stats.merges += 1
        conds = [And(*s.cond) for s in snaps]
        base = snaps[0]
        frames = []
        for i, f in enumerate(base.frames):
            nf = f.clone()
            names = set()
            for s in snaps:
                names |= set(s.frames[i].locals)
            for n in names:
                pairs = []
                for c, s in zip(conds, snaps):
                    pairs.append((c, s.frames[i].locals.get(n, UNINIT)))
                nf.locals[n] = merge_many(pairs)
            frames.append(nf)
        roots = {}
        for n in base.roots:
            roots[n] = merge_many([(c, s.roots[n]) for c, s in zip(conds, snaps)])
        g = Or(*conds)
        m = Snapshot(frames, roots, [g], max(s.next_fid for s in snaps))
        m.pending_call = base.pending_call
        step = max(1, len(snaps) // 12)
        for s in snaps[::step]:
            m.models.extend(s.models[:1])
        return m

    def feasible_panics(self, extra=()):
        """decide the recorded (potential) panics: -> list of records whose condition is satisfiable"""
        if not self.panics:
            return []
        self.solver.push()
        for e in extra:
            self.solver.add(e)
        try:
            conds = [And(*p.cond) for p in self.panics]
            if self._check(Or(*conds)) == z3.unsat:
                self.stats.panics_discharged += len(conds)
                return []
            out = []
            for p, c in zip(self.panics, conds):
                if self._check(c) != z3.unsat:
                    out.append(p)
            return out
        finally:
            self.solver.pop()

    def tmp_cell(self, value):
        """a harness-owned cell holding value -> &mut reference to it"""
        name = '__tmp%d' % self._fresh()
        self.roots[name] = value
        return Ref('root', name)

    def _fresh(self):
        self._fresh_n = getattr(self, '_fresh_n', 0) + 1
        return self._fresh_n

    def define(self, eq):
        """a definition of a fresh name: part of every later query (self.definitions)"""
        self.definitions.append(eq)
        self.solver.add(eq)

"""str / String / char / fmt intrinsics.

Strings are concrete Python str on every path except digit strings built from a symbolic builder, which are
SymStr (byte Seq).  Numeric values parsed from strings are kept exact (F64Exact) and converted to IEEE
double (round-to-nearest-even, like Rust's correctly rounded parser) only when a float operation needs it.
"""
import z3
import unicodedata
from dataclasses import dataclass
from typing import Any
from .values import *
from .intrinsics import (intrinsic, IterBase, some, NONE, option, ok, err, as_seq, seq_append, ult, ule, add64, sub64,
                         eq_any, opt_is_some, iter_next, seq_eq)


def S(ex, v):
    """normalise a str-like argument: Python str or SymStr"""
    v = ex.deref(v)
    if isinstance(v, Choice):
        v = ex.concretize(v)
    if isinstance(v, (str, SymStr)):
        return v
    raise Unsupported('expected a string, got %r' % type(v))


def C(ex, v):
    """concrete Python str (fails for symbolic digit strings)"""
    v = S(ex, v)
    if isinstance(v, SymStr):
        cs = symstr_concrete(v)
        if cs is None:
            raise Unsupported('string operation on a symbolic digit string')
        return cs
    return v


def symstr_concrete(v: SymStr):
    n = concrete_int(v.seq.len)
    if n is None:
        return None
    bs = []
    for e in v.seq.elems[:n]:
        c = concrete_int(e)
        if c is None:
            return None
        bs.append(c)
    try:
        return bytes(bs).decode('utf-8')
    except UnicodeDecodeError:
        return None


def to_symstr(v):
    if isinstance(v, SymStr):
        return v
    return SymStr(seq_from_bytes(v.encode('utf-8')))


def norm_str(v):
    """SymStr with fully concrete content -> Python str"""
    if isinstance(v, SymStr):
        c = symstr_concrete(v)
        if c is not None:
            return c
    return v


def str_eq(ex, a, b):
    a, b = S(ex, a), S(ex, b)
    if isinstance(a, str) and isinstance(b, str):
        return a == b
    return seq_eq(ex, to_symstr(a).seq, to_symstr(b).seq)


@intrinsic('str::len', 'String::len')
def str_len(ex, args):
    v = S(ex, args[0])
    if isinstance(v, str):
        return len(v.encode('utf-8'))
    return v.seq.len


@intrinsic('str::is_empty', 'String::is_empty')
def str_is_empty(ex, args):
    return eq_any(str_len(ex, args), 0, 64)


@intrinsic('str::contains')
def str_contains(ex, args):
    s, pat = C(ex, args[0]), args[1]
    if isinstance(pat, int):
        pat = chr(pat)
    else:
        pat = C(ex, pat)
    return pat in s


def _pat(ex, p):
    """pattern argument: char (int), str, or array/slice of chars"""
    p = ex.deref(p)
    if isinstance(p, int):
        return ('chars', [chr(p)])
    if isinstance(p, Seq):
        return ('chars', [chr(concrete_int(c)) for c in p.elems[:concrete_int(p.len)]])
    if isinstance(p, (str, SymStr, Choice)):
        return ('str', C(ex, p))
    if isinstance(p, (FnItem, Closure)):
        # predicate pattern (FnMut(char) -> bool): evaluated per concrete character through the executor
        def pred(ch, p=p):
            r = ex.call_value(p, [ord(ch)])
            if not isinstance(r, bool):
                raise Unsupported('predicate pattern with a symbolic answer')
            return r
        return ('pred', pred)
    raise Unsupported('pattern %r' % type(p))


@intrinsic('str::ends_with')
def str_ends_with(ex, args):
    s = C(ex, args[0])
    k, p = _pat(ex, args[1])
    if k == 'chars':
        return len(s) > 0 and s[-1] in p
    return s.endswith(p)


@intrinsic('str::starts_with')
def str_starts_with(ex, args):
    s = C(ex, args[0])
    k, p = _pat(ex, args[1])
    if k == 'chars':
        return len(s) > 0 and s[0] in p
    return s.startswith(p)


@intrinsic('str::trim_end_matches')
def str_trim_end_matches(ex, args):
    s = C(ex, args[0])
    k, p = _pat(ex, args[1])
    if k == 'chars':
        while s and s[-1] in p:
            s = s[:-1]
        return s
    if p == '':
        return s
    while s.endswith(p):
        s = s[:-len(p)]
    return s


@intrinsic('str::trim_start_matches')
def str_trim_start_matches(ex, args):
    s = C(ex, args[0])
    k, p = _pat(ex, args[1])
    if k == 'chars':
        while s and s[0] in p:
            s = s[1:]
        return s
    if p == '':
        return s
    while s.startswith(p):
        s = s[len(p):]
    return s


@intrinsic('str::strip_suffix')
def str_strip_suffix(ex, args):
    s = C(ex, args[0])
    k, p = _pat(ex, args[1])
    if k == 'chars':
        if s and s[-1] in p:
            return some(s[:-1])
        return NONE
    if s.endswith(p):
        return some(s[:len(s) - len(p)])
    return NONE


@intrinsic('str::strip_prefix')
def str_strip_prefix(ex, args):
    s = C(ex, args[0])
    k, p = _pat(ex, args[1])
    if k == 'chars':
        if s and s[0] in p:
            return some(s[1:])
        return NONE
    if s.startswith(p):
        return some(s[len(p):])
    return NONE


# White_Space property (what char::is_whitespace implements)
WHITE_SPACE = [0x9, 0xA, 0xB, 0xC, 0xD, 0x20, 0x85, 0xA0, 0x1680] + list(range(0x2000, 0x200B)) + \
              [0x2028, 0x2029, 0x202F, 0x205F, 0x3000]
_WS = set(WHITE_SPACE)


def char_is_whitespace(c):
    return c in _WS


def char_is_ascii_whitespace(c):
    return c in (0x20, 0x9, 0xA, 0xC, 0xD)


def char_is_alphabetic(c):
    """Unicode Alphabetic.  Python has no direct Alphabetic property; this approximation (letters, letter
    numbers, and Other_Alphabetic marks approximated by category Mn/Mc with isalpha false) is validated against
    the native std for every code point that occurs in a run (differential validation), see validate.py."""
    ch = chr(c)
    cat = unicodedata.category(ch)
    if cat[0] == 'L' or cat == 'Nl':
        return True
    return ALPHA_OVERRIDE.get(c, False)


def char_is_numeric(c):
    cat = unicodedata.category(chr(c))
    return cat in ('Nd', 'Nl', 'No')


def char_is_alphanumeric(c):
    return char_is_alphabetic(c) or char_is_numeric(c)


ALPHA_OVERRIDE = {}    # code point -> bool, filled from the native oracle (exact std answers)
ALNUM_OVERRIDE = {}


def set_char_tables(alpha, alnum):
    ALPHA_OVERRIDE.update(alpha)
    ALNUM_OVERRIDE.update(alnum)


def _alpha(c):
    if c in ALPHA_OVERRIDE:
        return ALPHA_OVERRIDE[c]
    return char_is_alphabetic(c)


def _alnum(c):
    if c in ALNUM_OVERRIDE:
        return ALNUM_OVERRIDE[c]
    return char_is_alphanumeric(c)


def _char_arg(ex, v):
    v = ex.deref(v)
    ci = concrete_int(v)
    if ci is None:
        raise Unsupported('symbolic char')
    return ci


@intrinsic('char::is_whitespace')
def i_is_whitespace(ex, args):
    return char_is_whitespace(_char_arg(ex, args[0]))


@intrinsic('char::is_ascii_whitespace')
def i_is_ascii_whitespace(ex, args):
    return char_is_ascii_whitespace(_char_arg(ex, args[0]))


@intrinsic('char::is_alphabetic')
def i_is_alphabetic(ex, args):
    return _alpha(_char_arg(ex, args[0]))


@intrinsic('char::is_alphanumeric')
def i_is_alphanumeric(ex, args):
    return _alnum(_char_arg(ex, args[0]))


@intrinsic('char::is_numeric')
def i_is_numeric(ex, args):
    return char_is_numeric(_char_arg(ex, args[0]))


@intrinsic('char::is_ascii_digit')
def i_is_ascii_digit(ex, args):
    return 0x30 <= _char_arg(ex, args[0]) <= 0x39


@intrinsic('str::trim')
def str_trim(ex, args):
    v0 = ex.deref(args[0])
    if hasattr(v0, 'trim_ws'):
        return v0.trim_ws(ex, True, True)
    s = C(ex, args[0])
    i, j = 0, len(s)
    while i < j and char_is_whitespace(ord(s[i])):
        i += 1
    while j > i and char_is_whitespace(ord(s[j - 1])):
        j -= 1
    return s[i:j]


@intrinsic('str::trim_end')
def str_trim_end(ex, args):
    v0 = ex.deref(args[0])
    if hasattr(v0, 'trim_ws'):
        return v0.trim_ws(ex, False, True)
    s = C(ex, args[0])
    j = len(s)
    while j > 0 and char_is_whitespace(ord(s[j - 1])):
        j -= 1
    return s[:j]


@intrinsic('str::trim_start')
def str_trim_start(ex, args):
    s = C(ex, args[0])
    i = 0
    while i < len(s) and char_is_whitespace(ord(s[i])):
        i += 1
    return s[i:]


LOWER_OVERRIDE = {}   # str -> str from native to_lowercase (exact std answers)


def rust_lowercase(s: str) -> str:
    if s in LOWER_OVERRIDE:
        return LOWER_OVERRIDE[s]
    if s.isascii():
        return s.lower()
    # Python's str.lower follows the same Unicode SpecialCasing (incl. final sigma) as Rust's to_lowercase;
    # differential validation against the native std covers every string of a run.
    return s.lower()


def ascii_lowercase(s: str) -> str:
    return ''.join(chr(ord(c) + 32) if 'A' <= c <= 'Z' else c for c in s)


def ascii_uppercase(s: str) -> str:
    return ''.join(chr(ord(c) - 32) if 'a' <= c <= 'z' else c for c in s)


@intrinsic('str::to_ascii_lowercase')
def str_to_ascii_lowercase(ex, args):
    v = ex.deref(args[0])
    if hasattr(v, 'to_ascii_lowercase'):
        return v.to_ascii_lowercase(ex)
    v = S(ex, v)
    if isinstance(v, SymStr):
        c = symstr_concrete(v)
        if c is not None:
            return ascii_lowercase(c)
        el = []
        for e in v.seq.elems:
            if is_sym(e):
                e8 = bv(e, 8)
                el.append(z3.If(z3.And(z3.UGE(e8, 65), z3.ULE(e8, 90)), e8 + 32, e8))
            else:
                el.append(e + 32 if 65 <= e <= 90 else e)
        return SymStr(Seq(tuple(el), v.seq.len, 'u8'))
    return ascii_lowercase(v)


@intrinsic('str::to_lowercase')
def str_to_lowercase(ex, args):
    v = ex.deref(args[0])
    if hasattr(v, 'to_lowercase'):
        return v.to_lowercase(ex)
    v = S(ex, v)
    if isinstance(v, SymStr):
        c = symstr_concrete(v)
        if c is not None:
            return rust_lowercase(c)
        # symbolic digit string: bytes must be ASCII; map A-Z
        el = []
        for i, e in enumerate(v.seq.elems):
            if is_sym(e):
                e8 = bv(e, 8)
                ex.bound_if(And(ult(i, v.seq.len), z3.UGE(e8, 0x80)), 'non-ASCII byte in symbolic string')
                el.append(z3.If(z3.And(z3.UGE(e8, 65), z3.ULE(e8, 90)), e8 + 32, e8))
            else:
                if e >= 0x80:
                    raise Unsupported('to_lowercase of mixed symbolic/non-ASCII string')
                el.append(e + 32 if 65 <= e <= 90 else e)
        return SymStr(Seq(tuple(el), v.seq.len, 'u8'))
    return rust_lowercase(v)


@intrinsic('ToOwned::to_owned', 'ToString::to_string', 'String::from', 'From::from', 'str::to_string',
           'String::clone', 'str::to_owned')
def str_to_owned(ex, args):
    return ex.deref(args[0])


@intrinsic('String::new')
def string_new(ex, args):
    return ''


@intrinsic('str::repeat')
def str_repeat(ex, args):
    s, n = C(ex, args[0]), args[1]
    cn = concrete_int(n)
    if cn is not None:
        return s * cn
    b = s.encode('utf-8')
    if len(b) != 1:
        raise Unsupported('repeat of a multi-byte string a symbolic number of times')
    ex.bound_if(Not(ule(n, ex.cap)), 'repeat count beyond capacity')
    return SymStr(Seq(tuple([b[0]] * ex.cap), n, 'u8'))


@intrinsic('String::push_str')
def string_push_str(ex, args):
    r, t = args
    s = S(ex, ex.read_ref(r))
    t = S(ex, t)
    if isinstance(s, str) and isinstance(t, str):
        ex.write_ref(r, s + t)
        return UNIT
    res = SymStr(seq_append(ex, to_symstr(s).seq, to_symstr(t).seq))
    ex.write_ref(r, norm_str(res))
    return UNIT


@intrinsic('String::push')
def string_push(ex, args):
    r, c = args
    s = C(ex, ex.read_ref(r))
    ex.write_ref(r, s + chr(_char_arg(ex, c)))
    return UNIT


@intrinsic('from_utf8')
def from_utf8(ex, args):
    s = as_seq(ex, args[0])
    n = concrete_int(s.len)
    if n is not None and all(concrete_int(e) is not None for e in s.elems[:n]):
        try:
            return ok(bytes(concrete_int(e) for e in s.elems[:n]).decode('utf-8'))
        except UnicodeDecodeError:
            return err(Struct('Utf8Error', ()))
    # symbolic content: ASCII bytes are always valid; anything else is outside the stated bounds
    for i, e in enumerate(s.elems):
        if is_sym(e):
            ex.bound_if(And(ult(i, s.len), z3.UGE(bv(e, 8), 0x80)), 'non-ASCII byte in from_utf8 input')
        elif e >= 0x80:
            ex.bound_if(ult(i, s.len), 'non-ASCII byte in from_utf8 input')
    return ok(SymStr(Seq(s.elems, s.len, 'u8')))


# ------------------------------------------------------------------ exact numeric values

class F64Exact:
    """value = (integer denoted by the ASCII digit string src, or num) / 10**scale, rounded to nearest-even double
    when used as a float.  The digit string is kept so that value obligations can be decided digit-wise."""
    type_name = 'f64'

    def __init__(self, num=None, scale=0, neg=False, src=None):
        self._num = num
        self.scale = scale
        self.neg = neg
        self.src = src        # Seq of ASCII digits (without the decimal point) or None

    @property
    def num(self):
        if self._num is None:
            self._num = digits_value(None, self.src)
        return self._num

    def to_fp(self):
        num = self.num
        if not is_sym(num):
            if self.scale:
                v = float('%d.%0*d' % (num // 10 ** self.scale, self.scale, num % 10 ** self.scale))
            else:
                v = float(num)
            return -v if self.neg else v
        if self.scale != 0:
            raise Unsupported('IEEE value of a symbolic decimal fraction')
        fp = z3.fpUnsignedToFP(z3.RNE(), num, z3.Float64())
        return z3.fpNeg(fp) if self.neg else fp

    def compare_const(self, op, t):
        """exact comparison `self op t` with a concrete double t, or None if not decidable without IEEE encoding.
        The value is a non-negative decimal with at most 15 significant digits here, hence exactly representable
        or compared exactly through integers."""
        import math
        if self.neg:
            return None
        if math.isnan(t):
            return op == 'Ne'
        if t == float('inf'):
            return {'Lt': True, 'Le': True, 'Gt': False, 'Ge': False, 'Eq': False, 'Ne': True}[op]
        if t < 0 or t == float('-inf'):
            return {'Lt': False, 'Le': False, 'Gt': True, 'Ge': True, 'Eq': False, 'Ne': True}[op]
        num = self.num
        if not is_sym(num):
            return None
        if self.src is not None and self.src.cap > 15:
            ln_ok = z3.ULE(bv(self.src.len, 64), 15)
        else:
            ln_ok = True
        # value = num / 10^scale ; compare num with t * 10^scale exactly (t is a dyadic rational)
        from fractions import Fraction
        bound = Fraction(t) * (10 ** self.scale)
        fl, ce = math.floor(bound), math.ceil(bound)
        n = bv(num, 128)
        if op == 'Lt':
            res = z3.ULT(n, z3.BitVecVal(ce, 128))
        elif op == 'Le':
            res = z3.ULE(n, z3.BitVecVal(fl, 128))
        elif op == 'Gt':
            res = z3.UGT(n, z3.BitVecVal(fl, 128))
        elif op == 'Ge':
            res = z3.UGE(n, z3.BitVecVal(ce, 128))
        elif op == 'Eq':
            res = (n == fl) if fl == ce else z3.BoolVal(False)
        else:
            res = (n != fl) if fl == ce else z3.BoolVal(True)
        if ln_ok is True:
            return res
        self._needs_len15 = ln_ok
        return ('guarded', ln_ok, res)

    def merge_with(self, c, other):
        if isinstance(other, F64Exact) and other.scale == self.scale and other.neg == self.neg:
            if self.src is not None and other.src is not None:
                return F64Exact(None, self.scale, self.neg, seq_ite(c, self.src, other.src))
            return F64Exact(ite(c, bv(self.num, 128), bv(other.num, 128)), self.scale, self.neg)
        return None

    def same_as(self, o):
        if not isinstance(o, F64Exact) or self.scale != o.scale or self.neg != o.neg:
            return False
        if self.src is not None and o.src is not None:
            return same(self.src, o.src)
        return same(self.num, o.num)

    def __repr__(self):
        return 'F64Exact(scale=%d, src=%r)' % (self.scale, self.src if self.src is not None else self._num)


def digits_value(ex, seq: Seq, start=0):
    """numeric value (BV128) of ASCII digits seq[start:len)"""
    val = z3.BitVecVal(0, 128)
    n = concrete_int(seq.len)
    if n is not None and all(concrete_int(e) is not None for e in seq.elems[start:n]):
        v = 0
        for e in seq.elems[start:n]:
            v = v * 10 + (concrete_int(e) - 48)
        return v
    for i in range(start, seq.cap):
        d = z3.ZeroExt(120, bv(seq.elems[i], 8) - 48)
        val = z3.If(ult(i, seq.len), val * 10 + d, val)
    return val


def all_ascii_digits(seq: Seq, start=0, end=None):
    conds = []
    for i in range(start, seq.cap if end is None else min(end, seq.cap)):
        e = seq.elems[i]
        if is_sym(e):
            e8 = bv(e, 8)
            conds.append(Or(Not(ult(i, seq.len)), z3.And(z3.UGE(e8, 48), z3.ULE(e8, 57))))
        else:
            if not (48 <= e <= 57):
                conds.append(Not(ult(i, seq.len)))
    return And(*conds)


@intrinsic('str::parse')
def str_parse(ex, args):
    # only parse::<f64> occurs in the crate (checked by the caller's path key)
    v = S(ex, args[0])
    if isinstance(v, SymStr):
        c = symstr_concrete(v)
        if c is not None:
            v = c
    if isinstance(v, str):
        return parse_f64_concrete(v)
    seq = v.seq
    parts = v.parts
    is_decimal_structure = parts is not None and len(parts) == 3 and parts[1] == '.'
    dots = [i for i, e in enumerate(seq.elems) if not is_sym(e) and e == 46]
    if not dots and not is_decimal_structure:
        valid = And(Not(eq_any(seq.len, 0, 64)), all_ascii_digits(seq))
        ex.bound_if(Not(ule(seq.len, 38)), 'more than 38 digits')
        val = F64Exact(None, 0, False, seq)
        cb = concrete_bool(valid)
        if cb is True:
            return ok(val)
        return Enum('Result', z3.If(valid, z3.BitVecVal(0, 64), z3.BitVecVal(1, 64)),
                    ((0, (val,)), (1, (Struct('ParseFloatError', ()),))))
    parts = v.parts
    if parts is not None and len(parts) == 3 and parts[1] == '.' and all(isinstance(p, (str, SymStr)) for p in (parts[0], parts[2])):
        a, b = to_symstr(parts[0]).seq, to_symstr(parts[2]).seq
        # Rust accepts "12." and ".5" too; here both sides are digit strings produced by DigitString::to_string
        valid = And(all_ascii_digits(a), all_ascii_digits(b), Not(And(eq_any(a.len, 0, 64), eq_any(b.len, 0, 64))))
        val = F64Dec(a, b)
        cb = concrete_bool(valid)
        if cb is True:
            return ok(val)
        return Enum('Result', z3.If(valid, z3.BitVecVal(0, 64), z3.BitVecVal(1, 64)),
                    ((0, (val,)), (1, (Struct('ParseFloatError', ()),))))
    raise Unsupported('parse of a symbolic string containing a decimal point (no structure kept)')


def parse_f64_concrete(s: str):
    import re
    # Rust f64::from_str grammar: [+-]? (inf|infinity|nan | digits [. digits?] | . digits) ([eE][+-]?digits)?
    m = re.fullmatch(r'[+-]?(?:inf|infinity|nan|(?:[0-9]+\.?[0-9]*|\.[0-9]+)(?:[eE][+-]?[0-9]+)?)', s, re.I)
    if not m or not s.isascii():
        return err(Struct('ParseFloatError', ()))
    m2 = re.fullmatch(r'([0-9]+)(?:\.([0-9]*))?', s)
    if m2:
        ip, fp = m2.group(1), m2.group(2) or ''
        if m2.group(2):
            return ok(F64Dec(seq_from_bytes(ip.encode()), seq_from_bytes(fp.encode())))
        return ok(F64Exact(int(ip + fp), len(fp), False, seq_from_bytes((ip + fp).encode())))
    return ok(float(s))


class F64Dec:
    """the decimal int.frac with (possibly symbolic) digit strings for both parts"""
    type_name = 'f64'
    scale = None

    def __init__(self, int_src, frac_src):
        self.int_src = int_src
        self.frac_src = frac_src
        self.src = None

    def to_fp(self):
        a, b = symstr_concrete(SymStr(self.int_src)), symstr_concrete(SymStr(self.frac_src))
        if a is None or b is None:
            raise Unsupported('IEEE value of a symbolic decimal fraction')
        return float(a + '.' + b)

    def compare_const(self, op, t):
        """decided through the integer part when that suffices (|int - t| >= 1), else not decidable here"""
        import math
        if math.isnan(t):
            return op == 'Ne'
        if t <= 0 and op in ('Lt', 'Le'):
            return False
        if t < 0 and op in ('Gt', 'Ge'):
            return True
        if t == float('inf'):
            return {'Lt': True, 'Le': True, 'Gt': False, 'Ge': False, 'Eq': False, 'Ne': True}[op]
        n = bv(digits_value(None, self.int_src), 128)
        fl = math.floor(t)
        below = z3.ULT(n + 1, z3.BitVecVal(fl + 1, 128)) if fl >= 0 else z3.BoolVal(False)      # int + 1 <= floor(t)
        above = z3.UGE(n, z3.BitVecVal(math.ceil(t), 128)) if t > 0 else z3.BoolVal(True)         # int >= ceil(t)
        decided = z3.Or(below, above)
        res = {'Lt': below, 'Le': below, 'Gt': above, 'Ge': above}.get(op)
        if res is None:
            return None
        return ('guarded', decided, res)

    def merge_with(self, c, other):
        if isinstance(other, F64Dec):
            return F64Dec(seq_ite(c, self.int_src, other.int_src), seq_ite(c, self.frac_src, other.frac_src))
        return None

    def same_as(self, o):
        return isinstance(o, F64Dec) and same(self.int_src, o.int_src) and same(self.frac_src, o.frac_src)


class F64Recip:
    """1 / inner, inner an exact non-negative value (Spanish fractions '1/n')"""
    type_name = 'f64'

    def __init__(self, inner):
        self.inner = inner

    def to_fp(self):
        v = self.inner.to_fp()
        if is_sym(v):
            return z3.fpDiv(z3.RNE(), z3.FPVal(1.0, z3.Float64()), v)
        return float('inf') if v == 0 else 1.0 / v

    def compare_const(self, op, t):
        import math
        if math.isnan(t):
            return op == 'Ne'
        if t <= 0:
            return {'Lt': False, 'Le': False, 'Gt': True, 'Ge': True, 'Eq': False, 'Ne': True}[op]
        if t == float('inf'):
            return None
        # 1/x op t for a non-negative exact x (x == 0 gives +inf): compare x with the exact rational 1/t.  The rounded
        # quotient 1.0/x can only disagree with this when 1/x is within half an ulp of t without being equal to it, which
        # cannot happen for the integer x (Spanish 1/n) and the thresholds used; stated as an assumption of the checks.
        from fractions import Fraction
        bound = Fraction(1) / Fraction(t)
        inv = {'Lt': 'Gt', 'Le': 'Ge', 'Gt': 'Lt', 'Ge': 'Le'}.get(op)
        if inv is None:
            return None
        r = self.inner.compare_const(inv, bound)
        z = self.inner.compare_const('Eq', 0.0)
        if r is None or z is None:
            return None
        guard = []

        def term(x):
            if isinstance(x, tuple):
                guard.append(x[1])
                x = x[2]
            return z3.BoolVal(x) if isinstance(x, bool) else x
        r, z = term(r), term(z)
        res = z3.And(z3.Not(z), r) if op in ('Lt', 'Le') else z3.Or(z, r)
        if guard:
            return ('guarded', z3.And(*guard), res)
        return res

    def merge_with(self, c, other):
        if isinstance(other, F64Recip):
            m = self.inner.merge_with(c, other.inner)
            if m is not None:
                return F64Recip(m)
        return None

    def same_as(self, o):
        return isinstance(o, F64Recip) and self.inner.same_as(o.inner)


@intrinsic('f64::recip')
def f64_recip(ex, args):
    v = args[0]
    if isinstance(v, F64Exact):
        return F64Recip(v)
    if is_sym(v):
        return z3.fpDiv(z3.RNE(), z3.FPVal(1.0, z3.Float64()), v)
    if v == 0:
        return float('inf')
    return 1.0 / v


# ------------------------------------------------------------------ fmt

@dataclass(frozen=True, eq=False)
class FmtArg:
    value: Any
    how: str


@dataclass(frozen=True, eq=False)
class FmtArguments:
    template: Any     # bytes or None when unsupported
    args: tuple


@intrinsic('Argument::new_display')
def fmt_new_display(ex, args):
    return FmtArg(ex.deref(args[0]), 'display')


@intrinsic('Argument::new_debug')
def fmt_new_debug(ex, args):
    return FmtArg(ex.deref(args[0]), 'debug')


@intrinsic('Arguments::new', 'Arguments::new_const', 'Arguments::new_v1')
def fmt_arguments_new(ex, args):
    tmpl = as_seq(ex, args[0])
    n = concrete_int(tmpl.len)
    tb = bytes(concrete_int(e) for e in tmpl.elems[:n])
    fargs = ()
    if len(args) > 1:
        a = ex.deref(args[1])
        fargs = tuple(a.elems[:concrete_int(a.len)])
    return FmtArguments(tb, fargs)


def render_template(ex, fa: FmtArguments):
    """-> list of pieces (str | SymStr) or None if the template uses features outside the four simple ones"""
    tb = fa.template
    pieces = []
    i = 0
    argi = 0
    while i < len(tb):
        b = tb[i]
        if b == 0:
            if i != len(tb) - 1:
                return None
            return pieces
        if b == 0xC0:
            if argi >= len(fa.args):
                return None
            a = fa.args[argi]
            argi += 1
            if a.how != 'display':
                return None
            v = a.value
            if isinstance(v, Choice):
                v = ex.concretize(v)
            if not isinstance(v, (str, SymStr)):
                return None
            pieces.append(v)
            i += 1
            continue
        if 1 <= b < 0x80:
            lit = tb[i + 1:i + 1 + b]
            if len(lit) != b:
                return None
            pieces.append(lit.decode('utf-8'))
            i += 1 + b
            continue
        return None
    return None


@intrinsic('format', 'fmt::format')
def fmt_format(ex, args):
    fa = args[0]
    pieces = render_template(ex, fa)
    if pieces is None:
        raise Unsupported('format template %r' % (fa.template,))
    return concat_pieces(ex, pieces)


def concat_pieces(ex, pieces):
    if all(isinstance(p, str) for p in pieces):
        return ''.join(pieces)
    acc = None
    for p in pieces:
        if isinstance(p, str) and p == '':
            continue
        ps = to_symstr(p).seq
        acc = ps if acc is None else seq_append(ex, acc, ps)
    res = norm_str(SymStr(acc if acc is not None else Seq((), 0, 'u8')))
    if isinstance(res, SymStr):
        res = SymStr(res.seq, tuple(p for p in pieces if not (isinstance(p, str) and p == '')))
    return res


@intrinsic('_eprint', '_print', 'io::_eprint', 'io::_print', 'stdio::_eprint', 'stdio::_print')
def io_print(ex, args):
    ex.output_events.append((list(ex.pathcond), ex.where()))
    return UNIT


# ------------------------------------------------------------------ char iteration (concrete strings)

@dataclass(frozen=True, eq=False)
class Chars(IterBase):
    s: str
    pos: int = 0          # char index
    end: int = None

    def _end(self):
        return len(self.s) if self.end is None else self.end

    def next(self, ex):
        if self.pos >= self._end():
            return NONE, self
        return some(ord(self.s[self.pos])), Chars(self.s, self.pos + 1, self.end)

    def next_back(self, ex):
        e = self._end()
        if self.pos >= e:
            return NONE, self
        return some(ord(self.s[e - 1])), Chars(self.s, self.pos, e - 1)

    def remaining_chars(self):
        return [ord(c) for c in self.s[self.pos:self._end()]]

    def same_as(self, o):
        return (self.s, self.pos, self.end) == (o.s, o.pos, o.end)


@dataclass(frozen=True, eq=False)
class CharIndices(IterBase):
    s: str
    pos: int = 0          # char index

    def next(self, ex):
        if self.pos >= len(self.s):
            return NONE, self
        off = len(self.s[:self.pos].encode('utf-8'))
        return some((off, ord(self.s[self.pos]))), CharIndices(self.s, self.pos + 1)

    def same_as(self, o):
        return (self.s, self.pos) == (o.s, o.pos)


@dataclass(frozen=True, eq=False)
class Peekable(IterBase):
    inner: Any
    peeked: Any = None      # None = nothing peeked; else an Option value

    def next(self, ex):
        if self.peeked is not None:
            return self.peeked, Peekable(self.inner, None)
        item, ni = iter_next(ex, self.inner)
        return item, Peekable(ni, None)

    def same_as(self, o):
        return same(self.inner, o.inner) and (self.peeked is None) == (o.peeked is None) and \
            (self.peeked is None or same(self.peeked, o.peeked))


@intrinsic('str::chars')
def str_chars(ex, args):
    return Chars(C(ex, args[0]))


@dataclass(frozen=True, eq=False)
class Bytes(IterBase):
    """str::bytes over a concrete text: the UTF-8 bytes, as concrete u8 values"""
    b: bytes
    pos: int = 0

    def next(self, ex):
        if self.pos >= len(self.b):
            return NONE, self
        return some(self.b[self.pos]), Bytes(self.b, self.pos + 1)

    def remaining_bytes(self):
        return list(self.b[self.pos:])

    def same_as(self, o):
        return (self.b, self.pos) == (o.b, o.pos)


@intrinsic('str::bytes')
def str_bytes(ex, args):
    return Bytes(C(ex, args[0]).encode('utf-8'))


def _u8_arg(ex, v):
    v = ex.deref(v)
    ci = concrete_int(v)
    if ci is None:
        raise Unsupported('symbolic u8 in an ASCII class test')
    return ci


@intrinsic('u8::is_ascii_whitespace')
def i_u8_is_ascii_whitespace(ex, args):
    return _u8_arg(ex, args[0]) in (0x20, 0x9, 0xA, 0xC, 0xD)


@intrinsic('u8::is_ascii')
def i_u8_is_ascii(ex, args):
    return _u8_arg(ex, args[0]) < 0x80


@intrinsic('u8::is_ascii_alphabetic')
def i_u8_is_ascii_alphabetic(ex, args):
    c = _u8_arg(ex, args[0])
    return 0x41 <= c <= 0x5A or 0x61 <= c <= 0x7A


@intrinsic('u8::is_ascii_digit')
def i_u8_is_ascii_digit(ex, args):
    return 0x30 <= _u8_arg(ex, args[0]) <= 0x39


@intrinsic('u8::is_ascii_alphanumeric')
def i_u8_is_ascii_alphanumeric(ex, args):
    c = _u8_arg(ex, args[0])
    return 0x41 <= c <= 0x5A or 0x61 <= c <= 0x7A or 0x30 <= c <= 0x39


@intrinsic('u8::is_ascii_punctuation')
def i_u8_is_ascii_punctuation(ex, args):
    c = _u8_arg(ex, args[0])
    return 0x21 <= c <= 0x2F or 0x3A <= c <= 0x40 or 0x5B <= c <= 0x60 or 0x7B <= c <= 0x7E


@intrinsic('str::char_indices')
def str_char_indices(ex, args):
    return CharIndices(C(ex, args[0]))


@intrinsic('Iterator::peekable')
def it_peekable(ex, args):
    return Peekable(args[0])


@intrinsic('Peekable::peek')
def peekable_peek(ex, args):
    r = args[0]
    p = ex.read_ref(r)
    if p.peeked is None:
        item, ni = iter_next(ex, p.inner)
        p = Peekable(ni, item)
        ex.write_ref(r, p)
    # Option<&Item>: snapshot semantics
    return p.peeked


@intrinsic('Iterator::last', 'DoubleEndedIterator::next_back')
def it_last(ex, args):
    it = ex.deref(args[0])
    if isinstance(it, Chars):
        item, ni = it.next_back(ex)
        return item
    raise Unsupported('last on %r' % type(it))


@dataclass(frozen=True, eq=False)
class StrSplit(IterBase):
    parts: tuple
    pos: int = 0

    def next(self, ex):
        if self.pos >= len(self.parts):
            return NONE, self
        return some(self.parts[self.pos]), StrSplit(self.parts, self.pos + 1)

    def same_as(self, o):
        return (self.parts, self.pos) == (o.parts, o.pos)


@intrinsic('str::split')
def str_split(ex, args):
    v0 = ex.deref(args[0])
    if hasattr(v0, 'split_pat'):
        return v0.split_pat(ex, _pat(ex, args[1]))
    s = C(ex, args[0])
    k, p = _pat(ex, args[1])
    if k == 'pred':
        parts = []
        cur = ''
        for ch in s:
            if p(ch):
                parts.append(cur)
                cur = ''
            else:
                cur += ch
        parts.append(cur)
        return StrSplit(tuple(parts))
    if k == 'chars':
        parts = []
        cur = ''
        for ch in s:
            if ch in p:
                parts.append(cur)
                cur = ''
            else:
                cur += ch
        parts.append(cur)
        return StrSplit(tuple(parts))
    if p == '':
        raise Unsupported('split on empty pattern')
    return StrSplit(tuple(s.split(p)))


@intrinsic('str::split_whitespace')
def str_split_whitespace(ex, args):
    v = ex.deref(args[0])
    if hasattr(v, 'split_whitespace'):
        return v.split_whitespace(ex)
    v = S(ex, v)
    s = C(ex, v)
    parts = []
    cur = ''
    for ch in s:
        if char_is_whitespace(ord(ch)):
            if cur:
                parts.append(cur)
            cur = ''
        else:
            cur += ch
    if cur:
        parts.append(cur)
    return StrSplit(tuple(parts))


def str_index(ex, s, idx):
    s = C(ex, s)
    b = s.encode('utf-8')
    if not isinstance(idx, Struct):
        raise Unsupported('str index by %r' % (idx,))
    if idx.ty == 'Range':
        st, en = concrete_int(idx.fields[0]), concrete_int(idx.fields[1])
    elif idx.ty == 'RangeFrom':
        st, en = concrete_int(idx.fields[0]), len(b)
    elif idx.ty == 'RangeTo':
        st, en = 0, concrete_int(idx.fields[0])
    else:
        raise Unsupported('str index by ' + idx.ty)
    if st is None or en is None:
        raise Unsupported('symbolic str index')
    if st > en or en > len(b):
        ex.panic('str slice out of range', '%d..%d of %d' % (st, en, len(b)))

    def boundary(k):
        return k == len(b) or (b[k] & 0xC0) != 0x80
    if not (boundary(st) and boundary(en)):
        ex.panic('str slice not on a char boundary', '%d..%d' % (st, en))
    return b[st:en].decode('utf-8')


class PartsStr:
    """a String kept as the list of its pieces (each a str, SymStr or Choice of those): the result of join() over tokens
    whose texts are solver-chosen, so that the harness can compare it piecewise"""
    type_name = 'String'

    def __init__(self, parts):
        self.parts = tuple(parts)

    def same_as(self, o):
        return isinstance(o, PartsStr) and len(o.parts) == len(self.parts) and all(same(a, b) for a, b in zip(self.parts, o.parts))

    def merge_with(self, c, other):
        if isinstance(other, PartsStr) and len(other.parts) == len(self.parts):
            return PartsStr(tuple(ite(c, a, b) for a, b in zip(self.parts, other.parts)))
        return None


@intrinsic('[BasicToken]::join', '[T]::join', '[String]::join', '[&str]::join', 'Join::join')
def slice_join(ex, args):
    seq = as_seq(ex, args[0])
    sep = C(ex, args[1])
    n = ex.concretize_int(seq.len, 0, seq.cap, 'join length')
    pieces = []
    lifted = False
    for i in range(n):
        if i and sep:
            pieces.append(sep)
        e = seq.elems[i]
        if isinstance(e, Choice) and ex.lift_choices:
            # Borrow<str> for BasicToken is its text field
            pieces.append(merge_many([(c, _token_text(ex, a)) for c, a in e.alts]))
            lifted = True
            continue
        if isinstance(e, Choice):
            e = ex.concretize(e)
        pieces.append(_token_text(ex, e))
    if lifted or any(isinstance(p, Choice) for p in pieces):
        return PartsStr(pieces)
    return concat_pieces(ex, [S(ex, p) for p in pieces])


def _token_text(ex, e):
    if isinstance(e, Struct) and e.ty == 'BasicToken':
        return ex.call_path('<BasicToken as Borrow<str>>::borrow', [e])
    return e

"""Backward liveness of MIR locals (per function, cached).  Used to drop dead locals before states are merged."""
from .parse import Place, Const, Use, RRef, ROp, RDiscr, RAgg, RCast, RRepeat, Assign, Term


def _place_uses(p: Place, out, as_def=False):
    """locals read when evaluating a place (base + index locals).  A projected write still 'uses' the base."""
    if p.proj or not as_def:
        out.add(p.local)
    for pj in p.proj:
        if pj[0] == 'index':
            out.add(pj[1])


def _operand_uses(op, out):
    if isinstance(op, Use):
        _place_uses(op.place, out)


def rvalue_uses(rv, out, borrowed):
    if isinstance(rv, (Const,)):
        return
    if isinstance(rv, Use):
        _operand_uses(rv, out)
    elif isinstance(rv, RRef):
        _place_uses(rv.place, out)
        if rv.mut and not any(pj[0] == 'deref' for pj in rv.place.proj):
            borrowed.add(rv.place.local)
    elif isinstance(rv, ROp):
        for a in rv.args:
            _operand_uses(a, out)
    elif isinstance(rv, RDiscr):
        _place_uses(rv.place, out)
    elif isinstance(rv, RAgg):
        for a in rv.fields:
            _operand_uses(a, out)
    elif isinstance(rv, RCast):
        _operand_uses(rv.operand, out)
    elif isinstance(rv, RRepeat):
        _operand_uses(rv.operand, out)


class Liveness:
    def __init__(self, fn):
        self.fn = fn
        self.borrowed = set()
        self.use = {}
        self.defs = {}
        self.succ = {}
        for name, b in fn.blocks.items():
            use, defs = set(), set()
            # forward scan: a use counts if not previously defined in the block
            for st in b.stmts:
                u = set()
                rvalue_uses(st.rv, u, self.borrowed)
                _place_uses(st.dest, u, as_def=True)
                use |= (u - defs)
                if not st.dest.proj:
                    defs.add(st.dest.local)
            t = b.term
            u = set()
            if t.kind in ('switch', 'assert'):
                _operand_uses(t.operand, u)
            elif t.kind == 'drop':
                pass
            elif t.kind == 'call':
                for a in t.args:
                    _operand_uses(a, u)
                if isinstance(t.callee, Use):
                    _operand_uses(t.callee, u)
                if t.dest is not None and t.dest.proj:
                    _place_uses(t.dest, u, as_def=True)
            elif t.kind == 'return':
                u.add('_0')
            use |= (u - defs)
            # the call's destination is defined on the edge to the return block; treat as def at block end
            self.call_def = getattr(self, 'call_def', {})
            if t.kind == 'call' and t.dest is not None and not t.dest.proj:
                self.call_def[name] = t.dest.local
            self.use[name] = use
            self.defs[name] = defs
            succ = []
            for k, v in t.targets.items():
                if v and v.startswith('bb') and k not in ('unwind',):
                    succ.append(v)
            self.succ[name] = [s for s in succ if s in fn.blocks and not fn.blocks[s].cleanup]
        self.live_in = {n: set() for n in fn.blocks}
        changed = True
        while changed:
            changed = False
            for n in fn.blocks:
                out = set()
                for s in self.succ[n]:
                    out |= self.live_in[s]
                cd = self.call_def.get(n)
                if cd is not None:
                    out = out - {cd}
                new = self.use[n] | (out - self.defs[n])
                if new != self.live_in[n]:
                    self.live_in[n] = new
                    changed = True

    def live_at_terminator(self, block):
        """locals live just before the terminator of `block` executes (all statements done)"""
        b = self.fn.blocks[block]
        t = b.term
        out = set()
        for s in self.succ[block]:
            out |= self.live_in[s]
        cd = self.call_def.get(block)
        if cd is not None:
            out = out - {cd}
        u = set()
        if t.kind in ('switch', 'assert'):
            _operand_uses(t.operand, u)
        elif t.kind == 'call':
            for a in t.args:
                _operand_uses(a, u)
            if isinstance(t.callee, Use):
                _operand_uses(t.callee, u)
            if t.dest is not None and t.dest.proj:
                _place_uses(t.dest, u, as_def=True)
        elif t.kind == 'return':
            u.add('_0')
        return out | u | self.borrowed

    def live_after_call(self, block):
        """locals live in a caller frame suspended at the call terminating `block` (the callee has not returned)"""
        out = set()
        for s in self.succ[block]:
            out |= self.live_in[s]
        cd = self.call_def.get(block)
        if cd is not None:
            out = out - {cd}
        t = self.fn.blocks[block].term
        u = set()
        if t.dest is not None and t.dest.proj:
            _place_uses(t.dest, u, as_def=True)
        return out | u | self.borrowed


_cache = {}


def liveness(fn):
    k = id(fn)
    if k not in _cache:
        _cache[k] = Liveness(fn)
    return _cache[k]

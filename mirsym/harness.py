"""Harness-side symbolic inputs: phrases made of word slots, token streams with hint flags.

A *slot* is a list of (condition, word) alternatives with mutually exclusive conditions; the word None means the
slot is empty (skipped).  Iterating over slots is a merge point of the executor, so a phrase of k slots costs k
merged steps instead of |alternatives|^k paths."""
from dataclasses import dataclass
from typing import Any
import z3
from .values import *
from .intrinsics import IterBase, intrinsic, some, NONE, Enumerate
from . import strings


_SPLIT_CACHE = {}


def split_cond(c):
    """cond -> (dict var_id -> (var, value) for top-level conjuncts `var == numeral`, has_residual)"""
    if isinstance(c, bool):
        return {}, False
    k = c.get_id()
    hit = _SPLIT_CACHE.get(k)
    if hit is not None and hit[0] is c:
        return hit[1], hit[2]
    keys = {}
    residual = False
    stack = [c]
    while stack:
        e = stack.pop()
        if z3.is_and(e):
            stack.extend(e.children())
            continue
        if z3.is_const(e) and z3.is_bool(e) and e.decl().kind() == z3.Z3_OP_UNINTERPRETED:
            keys[e.get_id()] = (e, 1)
            continue
        if z3.is_not(e):
            a = e.arg(0)
            if z3.is_const(a) and a.decl().kind() == z3.Z3_OP_UNINTERPRETED:
                keys[a.get_id()] = (a, 0)
                continue
        if z3.is_eq(e):
            a, b = e.arg(0), e.arg(1)
            if z3.is_bv_value(b) and z3.is_const(a) and a.decl().kind() == z3.Z3_OP_UNINTERPRETED:
                keys[a.get_id()] = (a, b.as_long())
                continue
            if z3.is_bv_value(a) and z3.is_const(b) and b.decl().kind() == z3.Z3_OP_UNINTERPRETED:
                keys[b.get_id()] = (b, a.as_long())
                continue
        residual = True
    _SPLIT_CACHE[k] = (c, keys, residual)
    return keys, residual


_TREE_CACHE = {}


def _build_tree(alts, idx, fixed, info):
    if len(idx) <= 3:
        return ('leaf', idx)
    count = {}
    for i in idx:
        for vid, (var, val) in info[i].items():
            if vid not in fixed:
                count.setdefault(vid, [var, 0])[1] += 1
    if not count:
        return ('leaf', idx)
    vid = max(count, key=lambda k: (count[k][1], -k))
    var = count[vid][0]
    by_val = {}
    free = []
    for i in idx:
        kv = info[i].get(vid)
        if kv is None:
            free.append(i)
        else:
            by_val.setdefault(kv[1], []).append(i)
    vals = sorted(by_val)
    if z3.is_bool(var):
        eqv = lambda v: var if v == 1 else z3.Not(var)
        nev = lambda v: z3.Not(var) if v == 1 else var
    else:
        eqv = lambda v: var == v
        nev = lambda v: var != v
    conds = [eqv(v) for v in vals]
    subs = [_build_tree(alts, sorted(by_val[v] + free), fixed | {vid}, info) for v in vals]
    if free:
        conds.append(z3.And(*[nev(v) for v in vals]) if len(vals) > 1 else nev(vals[0]))
        subs.append(_build_tree(alts, free, fixed | {vid}, info))
    return ('split', conds, subs, var, vals)


def tree_choose(ex, alts):
    """choose one alternative of a slot through a decision tree over the digit variables that the alternatives'
    conditions fix (so that every solver question is a small one); returns the index of the chosen alternative.
    The tree is built once per slot."""
    k = id(alts)
    hit = _TREE_CACHE.get(k)
    if hit is None or hit[0] is not alts:
        info = [split_cond(c)[0] for c, _ in alts]
        hit = (alts, _build_tree(alts, list(range(len(alts))), frozenset(), info))
        _TREE_CACHE[k] = hit
    node = hit[1]
    subs = []
    while node[0] == 'split':
        j = ex.choose_by_domain(node[3], node[4], node[1])
        if j < len(node[4]):
            var, val = node[3], node[4][j]
            subs.append((var, z3.BoolVal(bool(val)) if z3.is_bool(var) else z3.BitVecVal(val, var.size())))
        node = node[2][j]
    idx = node[1]
    # specialise the leaf's conditions to the decisions taken (equivalent on this path, but small)
    ck = (k, id(node))
    spec = _LEAF_CACHE.get(ck)
    if spec is None:
        spec = []
        for i in idx:
            c = alts[i][0]
            if subs and not isinstance(c, bool):
                c = z3.simplify(z3.substitute(c, *subs))
            spec.append(c)
        _LEAF_CACHE[ck] = spec
    j = ex.choose(spec)
    return idx[j]


_LEAF_CACHE = {}


@dataclass(frozen=True, eq=False)
class SlotIter(IterBase):
    symbolic_input = True
    slots: tuple          # tuple of tuples of (cond, word|None)
    pos: int = 0
    lower: bool = False

    def next(self, ex):
        pos = self.pos
        while pos < len(self.slots):
            alts = self.slots[pos]
            i = tree_choose(ex, alts)
            w = alts[i][1]
            pos += 1
            if w is None:
                continue
            lw = w if not self.lower else (strings.ascii_lowercase(w) if self.lower == 'ascii' else strings.rust_lowercase(w))
            return some(lw), SlotIter(self.slots, pos, self.lower)
        return NONE, SlotIter(self.slots, pos, self.lower)

    def merge_key(self):
        return ('slot', self.pos)

    def shape(self, ex):
        return ('SlotIter', self.pos, self.lower)

    def merge_with(self, c, other):
        if isinstance(other, SlotIter) and other.pos == self.pos and other.slots is self.slots:
            return self
        return None

    def same_as(self, o):
        return isinstance(o, SlotIter) and o.pos == self.pos and o.slots is self.slots and o.lower == self.lower


@dataclass(frozen=True, eq=False)
class SlotPhrase:
    """a &str made of whitespace-separated word slots (the text given to text2digits)"""
    slots: tuple
    lower: bool = False
    type_name = 'str'
    symbolic_input = True

    def shape(self, ex):
        return ('SlotPhrase', self.lower)

    def to_lowercase(self, ex):
        return SlotPhrase(self.slots, True)

    def to_ascii_lowercase(self, ex):
        return SlotPhrase(self.slots, 'ascii')

    def split_whitespace(self, ex):
        return SlotIter(self.slots, 0, self.lower)


@dataclass(frozen=True, eq=False)
class VTok:
    """token with explicit hint flags (the harness' implementation of the Token trait)"""
    text: Any
    lower: Any
    sep: Any = False
    nan: Any = False
    ident: Any = None
    type_name = 'VTok'

    def shape(self, ex):
        return ('VTok', ex.shape_of(self.sep), ex.shape_of(self.nan))

    def same_as(self, o):
        return isinstance(o, VTok) and self.text == o.text and self.lower == o.lower and same(self.sep, o.sep) and \
            same(self.nan, o.nan) and self.ident == o.ident

    def merge_with(self, c, other):
        if isinstance(other, VTok) and other.text == self.text and other.lower == self.lower and other.ident == self.ident:
            return VTok(self.text, self.lower, ite(c, self.sep, other.sep), ite(c, self.nan, other.nan), self.ident)
        return None


@dataclass(frozen=True, eq=False)
class TokIter(IterBase):
    symbolic_input = True
    slots: tuple          # tuple of tuples of (cond, VTok|None)
    pos: int = 0
    taken: int = 0        # how many slots have been consumed (for the laziness obligations)

    def next(self, ex):
        pos = self.pos
        while pos < len(self.slots):
            alts = self.slots[pos]
            i = tree_choose(ex, alts)
            t = alts[i][1]
            pos += 1
            if t is None:
                continue
            return some(t), TokIter(self.slots, pos)
        return NONE, TokIter(self.slots, pos)

    def merge_key(self):
        return ('tok', self.pos)

    def shape(self, ex):
        return ('TokIter', self.pos)

    def merge_with(self, c, other):
        if isinstance(other, TokIter) and other.pos == self.pos and other.slots is self.slots:
            return self
        return None

    def same_as(self, o):
        return isinstance(o, TokIter) and o.pos == self.pos and o.slots is self.slots


def _wordlike(s):
    return len(s) > 0 and strings._alnum(ord(s[0])) and all(strings._alnum(ord(c)) or c in "-'" for c in s)


def _seplike(s):
    return len(s) > 0 and s[0] not in "-'" and all(not strings._alnum(ord(c)) for c in s)


@dataclass(frozen=True, eq=False)
class SlotText:
    """a &str made of consecutive parts; every part is a solver-chosen alternative among concrete strings, all word-like
    (alphanumeric start, then alphanumerics, - or ') or all separator-like (no alphanumeric, not starting with - or '),
    classes alternating -- so that the tokenizer (whose behaviour on arbitrary characters is C02's obligation) cuts the
    text exactly at the part boundaries"""
    slots: tuple
    lower: bool = False
    type_name = 'str'
    symbolic_input = True

    def __post_init__(self):
        prev = None
        for alts in self.slots:
            kinds = {('w' if _wordlike(t) else 's' if _seplike(t) else '?') for _, t in alts}
            if len(kinds) != 1 or '?' in kinds:
                raise Unsupported('SlotText part mixes word-like and separator-like alternatives: %r' % (sorted(t for _, t in alts)[:4],))
            k = kinds.pop()
            if k == prev:
                raise Unsupported('SlotText parts of the same class are adjacent')
            prev = k

    def shape(self, ex):
        return ('SlotText', self.lower)

    def kind(self, i):
        return 'w' if _wordlike(self.slots[i][0][1]) else 's'

    def to_lowercase(self, ex):
        return SlotText(tuple(tuple((c, strings.rust_lowercase(t)) for c, t in alts) for alts in self.slots), True)

    def to_ascii_lowercase(self, ex):
        return SlotText(tuple(tuple((c, strings.ascii_lowercase(t)) for c, t in alts) for alts in self.slots), True)

    def _all_ws(self, i):
        return all(all(strings.char_is_whitespace(ord(ch)) for ch in t) for _, t in self.slots[i])

    def trim_ws(self, ex, start, end):
        sl = list(self.slots)
        if start and sl and self.kind(0) == 's':
            if not self._all_ws(0):
                raise Unsupported('trim of a SlotText whose first part is not pure whitespace')
            sl = sl[1:]
        if end and sl and not _wordlike(sl[-1][0][1]):
            if not self._all_ws(len(self.slots) - 1):
                raise Unsupported('trim of a SlotText whose last part is not pure whitespace')
            sl = sl[:-1]
        return SlotText(tuple(sl), self.lower)

    def split_pat(self, ex, pat):
        """str::split with a char / char-set / predicate pattern: every separator character ends a (possibly empty) piece"""
        kind, p = pat
        if kind == 'str':
            raise Unsupported('split of a SlotText on a string pattern')
        is_sep = (lambda ch: p(ch)) if kind == 'pred' else (lambda ch: ch in p)
        if not any(self.kind(i) == 'w' for i in range(len(self.slots))):
            raise Unsupported('split of a SlotText without a word part')
        out = []
        last = len(self.slots) - 1
        for i, alts in enumerate(self.slots):
            if self.kind(i) == 'w':
                for _, t in alts:
                    if any(is_sep(ch) for ch in t):
                        raise Unsupported('split pattern matches inside a word part')
                out.append(alts)
                continue
            for _, t in alts:
                if not all(is_sep(ch) for ch in t):
                    raise Unsupported('split of a SlotText: a separator part is not made of separator characters only')
            # n separator characters give n-1 empty pieces between two words, n at either end of the text
            edge = i == 0 or i == last
            nmax = max(len(t) for _, t in alts)
            for j in range(nmax if edge else nmax - 1):
                need = j + 1 if edge else j + 2
                out.append(tuple((c, '' if len(t) >= need else None) for c, t in alts))
        return SlotIter(tuple(out), 0, False)

    def split_whitespace(self, ex):
        words = []
        for i, alts in enumerate(self.slots):
            if self.kind(i) == 'w':
                words.append(alts)
            elif not all(all(strings.char_is_whitespace(ord(ch)) for ch in t) for _, t in alts):
                raise Unsupported('split_whitespace of a SlotText with non-whitespace separators')
        return SlotIter(tuple(words), 0, False)


@dataclass(frozen=True, eq=False)
class SlotTokens(IterBase):
    """what tokenize() yields for a SlotText: one BasicToken per part"""
    text: SlotText
    symbolic_input = True

    def collect_all(self, ex):
        toks = []
        for alts in self.text.slots:
            vs = []
            for c, t in alts:
                vs.append((c, ex.call_path('BasicToken::new', [t])))
            toks.append(vs[0][1] if len(vs) == 1 else Choice(tuple(vs)))
        return Seq(tuple(toks), len(toks), '')


def install_text_level(ex):
    """enable the text-level abstractions on an executor"""
    ex.lift_choices = True
    name = ex.res.resolve_path('tokenize')
    if name is None:
        raise Unsupported('tokenize not found')

    def tokenize_override(ex_, args):
        t = ex_.deref(args[0])
        if isinstance(t, SlotText):
            return SlotTokens(t)
        return NotImplemented
    ex.fn_overrides[name] = tokenize_override
    ex.merge_hook = merge_hook
    # replace_numbers_in_text instantiates replace_numbers_in_stream with T = BasicToken: the associated function
    # <T as Replace>::replace has no receiver to dispatch on, so bind it to BasicToken's implementation (MIR)
    rn = ex.res.resolve_path('<T as Replace>::replace', 'BasicToken')
    if rn is not None and 'Replace>::replace' not in ex.static_dispatch:
        ex.static_dispatch['Replace>::replace'] = ex.mir.functions[rn][-1]


def _tok(ex, v):
    v = ex.deref(v)
    if isinstance(v, Choice):
        v = ex.concretize(v)
    if not isinstance(v, VTok):
        raise Unsupported('Token method on %r' % type(v))
    return v


@intrinsic('Token::text')
def tok_text(ex, args):
    return _tok(ex, args[0]).text


@intrinsic('Token::text_lowercase')
def tok_text_lowercase(ex, args):
    return _tok(ex, args[0]).lower


@intrinsic('Token::nt_separated')
def tok_nt_separated(ex, args):
    return _tok(ex, args[0]).sep


@intrinsic('Token::not_a_number_part')
def tok_nan(ex, args):
    return _tok(ex, args[0]).nan


def is_merge_iter(ex, v):
    from .intrinsics import SliceIter
    v = ex.deref(v)
    if isinstance(v, Enumerate):
        v = v.inner
    if isinstance(v, (SlotIter, TokIter)):
        return True
    if isinstance(v, SliceIter) and ex.lift_choices and v.seq.cap:
        e = v.seq.elems[0]
        if isinstance(e, Choice):
            e = e.alts[0][1]
        return (isinstance(e, Struct) and e.ty == 'BasicToken') or isinstance(e, VTok)
    return False


def merge_hook(ex, term, path, args):
    """pause at Iterator::next on a harness iterator"""
    if not args:
        return False
    if not path.endswith('::next'):
        return False
    if 'Iterator' not in path:
        return False
    try:
        return is_merge_iter(ex, args[0])
    except Unsupported:
        return False


def lang_value(ex, name):
    """build the interpreter object by executing <Name as Default>::default from MIR"""
    key = '__lang_' + name
    if key in ex.const_cache:
        return ex.const_cache[key]
    ex.frames = []
    ex.roots = {}
    ex.pathcond = []
    ex.next_fid = 1
    ex.nesting = 0
    ex._prefix, ex._dec_idx, ex._worklist, ex._resuming = [], 0, [], False
    v = ex.call_path('<%s as Default>::default' % name, [])
    ex.const_cache[key] = v
    return v


def merged_result(results):
    """merge the PathResults of an exploration into one symbolic return value"""
    if not results:
        return None
    return merge_many([(And(*r.cond), r.ret) for r in results])

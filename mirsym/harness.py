"""Harness-side symbolic inputs: phrases made of word slots, token streams with hint flags.

A *slot* is a list of (condition, word) alternatives with mutually exclusive conditions; the word None means the
slot is empty (skipped).  Iterating over slots is a merge point of the executor, so a phrase of k slots costs k
merged steps instead of |alternatives|^k paths."""
from dataclasses import dataclass
from typing import Any
import z3
from .values import *
from .intrinsics import IterBase, intrinsic, some, NONE, Enumerate
from . import strings


@dataclass(frozen=True, eq=False)
class SlotIter(IterBase):
    slots: tuple          # tuple of tuples of (cond, word|None)
    pos: int = 0
    lower: bool = False

    def next(self, ex):
        pos = self.pos
        while pos < len(self.slots):
            alts = self.slots[pos]
            i = ex.choose([c for c, _ in alts])
            w = alts[i][1]
            pos += 1
            if w is None:
                continue
            return some(strings.rust_lowercase(w) if self.lower else w), SlotIter(self.slots, pos, self.lower)
        return NONE, SlotIter(self.slots, pos, self.lower)

    def merge_key(self):
        return ('slot', self.pos)

    def merge_with(self, c, other):
        if isinstance(other, SlotIter) and other.pos == self.pos and other.slots is self.slots:
            return self
        return None

    def same_as(self, o):
        return isinstance(o, SlotIter) and o.pos == self.pos and o.slots is self.slots and o.lower == self.lower


@dataclass(frozen=True, eq=False)
class SlotPhrase:
    """a &str made of whitespace-separated word slots (the text given to text2digits)"""
    slots: tuple
    lower: bool = False
    type_name = 'str'

    def to_lowercase(self, ex):
        return SlotPhrase(self.slots, True)

    def split_whitespace(self, ex):
        return SlotIter(self.slots, 0, self.lower)


@dataclass(frozen=True, eq=False)
class VTok:
    """token with explicit hint flags (the harness' implementation of the Token trait)"""
    text: Any
    lower: Any
    sep: Any = False
    nan: Any = False
    ident: Any = None
    type_name = 'VTok'

    def same_as(self, o):
        return isinstance(o, VTok) and self.text == o.text and self.lower == o.lower and same(self.sep, o.sep) and \
            same(self.nan, o.nan) and self.ident == o.ident

    def merge_with(self, c, other):
        if isinstance(other, VTok) and other.text == self.text and other.lower == self.lower and other.ident == self.ident:
            return VTok(self.text, self.lower, ite(c, self.sep, other.sep), ite(c, self.nan, other.nan), self.ident)
        return None


@dataclass(frozen=True, eq=False)
class TokIter(IterBase):
    slots: tuple          # tuple of tuples of (cond, VTok|None)
    pos: int = 0
    taken: int = 0        # how many slots have been consumed (for the laziness obligations)

    def next(self, ex):
        pos = self.pos
        while pos < len(self.slots):
            alts = self.slots[pos]
            i = ex.choose([c for c, _ in alts])
            t = alts[i][1]
            pos += 1
            if t is None:
                continue
            return some(t), TokIter(self.slots, pos)
        return NONE, TokIter(self.slots, pos)

    def merge_key(self):
        return ('tok', self.pos)

    def merge_with(self, c, other):
        if isinstance(other, TokIter) and other.pos == self.pos and other.slots is self.slots:
            return self
        return None

    def same_as(self, o):
        return isinstance(o, TokIter) and o.pos == self.pos and o.slots is self.slots


def _tok(ex, v):
    v = ex.deref(v)
    if isinstance(v, Choice):
        v = ex.concretize(v)
    if not isinstance(v, VTok):
        raise Unsupported('Token method on %r' % type(v))
    return v


@intrinsic('Token::text')
def tok_text(ex, args):
    return _tok(ex, args[0]).text


@intrinsic('Token::text_lowercase')
def tok_text_lowercase(ex, args):
    return _tok(ex, args[0]).lower


@intrinsic('Token::nt_separated')
def tok_nt_separated(ex, args):
    return _tok(ex, args[0]).sep


@intrinsic('Token::not_a_number_part')
def tok_nan(ex, args):
    return _tok(ex, args[0]).nan


def is_merge_iter(ex, v):
    v = ex.deref(v)
    if isinstance(v, Enumerate):
        v = v.inner
    return isinstance(v, (SlotIter, TokIter))


def merge_hook(ex, term, path, args):
    """pause at Iterator::next on a harness iterator"""
    if not args:
        return False
    if not path.endswith('::next'):
        return False
    if 'Iterator' not in path:
        return False
    try:
        return is_merge_iter(ex, args[0])
    except Unsupported:
        return False


def lang_value(ex, name):
    """build the interpreter object by executing <Name as Default>::default from MIR"""
    key = '__lang_' + name
    if key in ex.const_cache:
        return ex.const_cache[key]
    ex.frames = []
    ex.roots = {}
    ex.pathcond = []
    ex.next_fid = 1
    ex.nesting = 0
    ex._prefix, ex._dec_idx, ex._worklist, ex._resuming = [], 0, [], False
    v = ex.call_path('<%s as Default>::default' % name, [])
    ex.const_cache[key] = v
    return v


def merged_result(results):
    """merge the PathResults of an exploration into one symbolic return value"""
    if not results:
        return None
    return merge_many([(And(*r.cond), r.ret) for r in results])

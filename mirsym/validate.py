"""Translator validation: the repository's own test inputs are pushed through the MIR executor (concretely) and
must give the expectation recorded in the tests -- the same thing the native test suite checks on the compiled code."""
import os
import re
import time
from .values import *
from . import harness as H

LANG_TYPES = {'de': 'German', 'en': 'English', 'es': 'Spanish', 'fr': 'French', 'it': 'Italian', 'nl': 'Dutch',
              'pt': 'Portuguese'}


def rust_unescape(s):
    out = []
    i = 0
    while i < len(s):
        c = s[i]
        if c != '\\':
            out.append(c)
            i += 1
            continue
        d = s[i + 1]
        if d == 'n':
            out.append('\n'); i += 2
        elif d == 't':
            out.append('\t'); i += 2
        elif d == '"':
            out.append('"'); i += 2
        elif d == '\\':
            out.append('\\'); i += 2
        elif d == "'":
            out.append("'"); i += 2
        elif d == 'u':
            j = s.index('}', i)
            out.append(chr(int(s[i + 3:j], 16))); i = j + 1
        elif d == '\n':
            # line continuation: skip newline and leading whitespace
            i += 2
            while i < len(s) and s[i] in ' \t\n':
                i += 1
        else:
            out.append(d); i += 2
    return ''.join(out)


_STR = r'"((?:[^"\\]|\\.|\\\n)*)"'


def extract_cases(repo):
    """-> list of (lang, kind, text, expected, threshold)"""
    cases = []
    for code in LANG_TYPES:
        p = os.path.join(repo, 'src', 'lang', code, 'mod.rs')
        src = open(p, encoding='utf-8').read()
        src = re.sub(r'(?m)^\s*//.*$', '', src)
        thr = {}
        for m in re.finditer(r'macro_rules!\s*(assert_replace\w*)\s*\{.*?replace_numbers_in_text\(\$text, &f, ([0-9.]+)\)',
                             src, re.S):
            thr[m.group(1)] = float(m.group(2))
        for m in re.finditer(r'assert_text2digits!\(\s*' + _STR + r'\s*,\s*' + _STR + r'\s*\)', src):
            cases.append((code, 't2d', rust_unescape(m.group(1)), rust_unescape(m.group(2)), None))
        for m in re.finditer(r'assert_invalid!\(\s*' + _STR + r'\s*\)', src):
            cases.append((code, 'invalid', rust_unescape(m.group(1)), None, None))
        for name, t in thr.items():
            for m in re.finditer(name + r'!\(\s*' + _STR + r'\s*,\s*' + _STR + r'\s*\)', src):
                cases.append((code, 'replace', rust_unescape(m.group(1)), rust_unescape(m.group(2)), t))
    return cases


def run_case(ex, case):
    code, kind, text, expected, thr = case
    lang = H.lang_value(ex, LANG_TYPES[code])
    n0 = len(ex.panics)
    if kind in ('t2d', 'invalid'):
        res = ex.explore('text2digits', [text, lang])
        if len(ex.panics) > n0:
            return False, 'panic %r' % ex.panics[n0:]
        if len(res) != 1:
            return False, '%d paths' % len(res)
        r = res[0].ret
        if kind == 'invalid':
            return concrete_int(r.disc) == 1, 'got %r' % (r,)
        if concrete_int(r.disc) != 0:
            return False, 'Err %r' % (r,)
        got = r.payload(0)[0]
        return got == expected, 'got %r' % (got,)
    ex.static_dispatch['Replace>::replace'] = ex.mir.functions[ex.res.find_impl('BasicToken', 'Replace', 'replace')[0]][-1]
    res = ex.explore('replace_numbers_in_text', [text, lang, thr])
    if len(ex.panics) > n0:
        return False, 'panic %r' % ex.panics[n0:]
    if len(res) != 1:
        return False, '%d paths' % len(res)
    got = res[0].ret
    return got == expected, 'got %r' % (got,)


def validate(ex, repo, kinds=('t2d', 'invalid', 'replace'), verbose=False):
    cases = [c for c in extract_cases(repo) if c[1] in kinds]
    bad = []
    t0 = time.time()
    for c in cases:
        try:
            ok, info = run_case(ex, c)
        except Unsupported as e:
            ok, info = False, 'Unsupported: %s' % e
        if not ok:
            bad.append((c, info))
            if verbose:
                print('MISMATCH', c, info)
    return len(cases), bad, time.time() - t0


if __name__ == '__main__':
    # translator validation: the repository's own test triples through the MIR executor (concrete mode)
    import os
    import sys
    sys.path.insert(0, os.path.dirname(os.path.dirname(os.path.abspath(__file__))))
    from checks.common import new_executor, REPO
    ex_ = new_executor()
    n_, bad_, dt_ = validate(ex_, REPO)
    print('translator validation: %d cases from the repository tests, %d mismatches, %.1fs' % (n_, len(bad_), dt_))
    for b_ in bad_[:10]:
        print('  MISMATCH', b_)
    sys.exit(2 if bad_ or n_ < 100 else 0)

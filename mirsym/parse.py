"""Parser for rustc's textual MIR (`-Zunpretty=mir`), as printed by the pinned nightly.

Everything the executor does not know is rejected with MirUnsupported; the checks turn that into
exit code 2 (inconclusive) rather than guessing.
"""
import re
from dataclasses import dataclass, field
from typing import Any, Optional


class MirUnsupported(Exception):
    pass


# ------------------------------------------------------------------ scanning helpers

_CHAR_LIT = re.compile(r"'(\\x[0-9a-fA-F]{2}|\\u\{[0-9a-fA-F]+\}|\\.|[^'\\])'")
OPEN = {'(': ')', '[': ']', '{': '}', '<': '>'}
CLOSE = {')', ']', '}', '>'}


def scan_string(s, i):
    """s[i] == '"'; return index after closing quote."""
    assert s[i] == '"'
    i += 1
    while i < len(s):
        c = s[i]
        if c == '\\':
            i += 2
            continue
        if c == '"':
            return i + 1
        i += 1
    raise MirUnsupported('unterminated string in: ' + s[:80])


def skip_atom(s, i):
    """If a string/char literal starts at i return index after it, else None."""
    c = s[i]
    if c == '"':
        return scan_string(s, i)
    if c == "'":
        m = _CHAR_LIT.match(s, i)
        if m:
            return m.end()
        return None
    return None


def split_top(s, sep=','):
    """Split s on sep occurring at bracket depth 0, outside literals."""
    out = []
    depth = 0
    i = 0
    start = 0
    n = len(s)
    ls = len(sep)
    while i < n:
        c = s[i]
        j = skip_atom(s, i) if c in '"\'' else None
        if j is not None:
            i = j
            continue
        if c == '-' and s.startswith('->', i):
            i += 2
            continue
        if c in OPEN:
            depth += 1
        elif c in CLOSE:
            depth -= 1
        elif depth == 0 and s.startswith(sep, i):
            out.append(s[start:i].strip())
            i += ls
            start = i
            continue
        i += 1
    last = s[start:].strip()
    if last or out:
        out.append(last)
    return [x for x in out if x != '' or sep != ',']


def find_top(s, sub, start=0):
    """Index of first occurrence of sub at depth 0 outside literals, or -1."""
    depth = 0
    i = start
    n = len(s)
    while i < n:
        c = s[i]
        j = skip_atom(s, i) if c in '"\'' else None
        if j is not None:
            i = j
            continue
        if depth == 0 and s.startswith(sub, i):
            return i
        if c == '-' and s.startswith('->', i):
            i += 2
            continue
        if c in OPEN:
            depth += 1
        elif c in CLOSE:
            depth -= 1
        i += 1
    return -1


def match_close(s, i):
    """s[i] is an opening bracket; return index of its matching close."""
    depth = 0
    n = len(s)
    while i < n:
        c = s[i]
        j = skip_atom(s, i) if c in '"\'' else None
        if j is not None:
            i = j
            continue
        if c == '-' and s.startswith('->', i):
            i += 2
            continue
        if c in OPEN:
            depth += 1
        elif c in CLOSE:
            depth -= 1
            if depth == 0:
                return i
        i += 1
    raise MirUnsupported('unbalanced: ' + s[:100])


def unescape_str(body: str) -> str:
    """Unescape the inside of a Rust "..." literal as printed by MIR."""
    out = []
    i = 0
    n = len(body)
    while i < n:
        c = body[i]
        if c != '\\':
            out.append(c)
            i += 1
            continue
        d = body[i + 1]
        if d == 'n':
            out.append('\n'); i += 2
        elif d == 't':
            out.append('\t'); i += 2
        elif d == 'r':
            out.append('\r'); i += 2
        elif d == '0':
            out.append('\0'); i += 2
        elif d in '\\"\'':
            out.append(d); i += 2
        elif d == 'x':
            out.append(chr(int(body[i + 2:i + 4], 16))); i += 4
        elif d == 'u':
            j = body.index('}', i)
            out.append(chr(int(body[i + 3:j], 16))); i = j + 1
        else:
            raise MirUnsupported('escape \\' + d)
    return ''.join(out)


def unescape_bytes(body: str) -> bytes:
    out = bytearray()
    i = 0
    n = len(body)
    while i < n:
        c = body[i]
        if c != '\\':
            out += c.encode('utf-8')
            i += 1
            continue
        d = body[i + 1]
        if d == 'n':
            out.append(10); i += 2
        elif d == 't':
            out.append(9); i += 2
        elif d == 'r':
            out.append(13); i += 2
        elif d == '0':
            out.append(0); i += 2
        elif d in '\\"\'':
            out.append(ord(d)); i += 2
        elif d == 'x':
            out.append(int(body[i + 2:i + 4], 16)); i += 4
        else:
            raise MirUnsupported('byte escape \\' + d)
    return bytes(out)


# ------------------------------------------------------------------ AST

@dataclass(frozen=True)
class Place:
    local: str
    proj: tuple = ()      # elements: ('deref',), ('field', n, ty), ('downcast', name), ('index', local), ('cindex', n)


@dataclass(frozen=True)
class Const:
    kind: str             # int, bool, str, bytes, char, unit, zst, item, alloc, float
    value: Any = None
    ty: str = ''


@dataclass(frozen=True)
class Use:
    mode: str             # copy | move
    place: Place


@dataclass(frozen=True)
class RRef:
    mut: bool
    place: Place


@dataclass(frozen=True)
class ROp:
    op: str
    args: tuple


@dataclass(frozen=True)
class RDiscr:
    place: Place


@dataclass(frozen=True)
class RAgg:
    kind: str             # tuple | array | adt | closure
    path: str             # for adt/closure: path text (with generics) ; variant is last segment for enums
    fields: tuple         # operands
    names: tuple = ()     # field names for struct-like


@dataclass(frozen=True)
class RCast:
    operand: Any
    ty: str
    kind: str


@dataclass(frozen=True)
class RRepeat:
    operand: Any
    count: str


@dataclass
class Assign:
    dest: Place
    rv: Any
    line: int = 0


@dataclass
class Term:
    kind: str             # goto return unreachable resume switch assert drop call
    targets: dict = field(default_factory=dict)
    operand: Any = None   # switch operand / assert cond / drop place
    negate: bool = False  # assert(!cond)
    msg: str = ''
    callee: Any = None    # str path or Use (fn pointer / closure value)
    args: tuple = ()
    dest: Optional[Place] = None
    line: int = 0


@dataclass
class Block:
    stmts: list
    term: Term
    cleanup: bool = False


@dataclass
class Function:
    name: str
    kind: str             # fn | const | static
    params: list          # [(local, type)]
    ret: str
    locals: dict          # local -> type
    blocks: dict          # 'bb0' -> Block
    line: int = 0
    ctfe: bool = False


INT_SUFFIX = re.compile(r'^(-?\d+)_(u8|u16|u32|u64|u128|usize|i8|i16|i32|i64|i128|isize)$')
FLOAT_SUFFIX = re.compile(r'^(-?[0-9.eE+\-]+|inf|-inf|NaN)_?(f32|f64)$')

BINOPS = {'Eq', 'Ne', 'Lt', 'Le', 'Gt', 'Ge', 'Add', 'Sub', 'Mul', 'Div', 'Rem', 'BitAnd', 'BitOr', 'BitXor',
          'Shl', 'Shr', 'AddWithOverflow', 'SubWithOverflow', 'MulWithOverflow', 'AddUnchecked', 'SubUnchecked',
          'MulUnchecked', 'Offset', 'Cmp'}
UNOPS = {'Not', 'Neg', 'PtrMetadata'}


def parse_place(s: str) -> Place:
    s = s.strip()
    proj = []

    def prim(t):
        t = t.strip()
        # postfix indexing
        if t.endswith(']') and not t.startswith('['):
            # find the matching '[' of the last ']'
            depth = 0
            k = len(t) - 1
            while k >= 0:
                if t[k] == ']':
                    depth += 1
                elif t[k] == '[':
                    depth -= 1
                    if depth == 0:
                        break
                k -= 1
            base, idx = t[:k], t[k + 1:-1].strip()
            local, pj = prim(base)
            m = re.match(r'^(\d+) of (\d+)$', idx)
            if m:
                return local, pj + [('cindex', int(m.group(1)))]
            if re.match(r'^_\d+$', idx):
                return local, pj + [('index', idx)]
            raise MirUnsupported('place index form: ' + t)
        if t.startswith('('):
            e = match_close(t, 0)
            if e != len(t) - 1:
                raise MirUnsupported('place: ' + t)
            inner = t[1:-1].strip()
            if inner.startswith('*'):
                local, pj = prim(inner[1:])
                return local, pj + [('deref',)]
            k = find_top(inner, ' as ')
            if k >= 0:
                local, pj = prim(inner[:k])
                return local, pj + [('downcast', inner[k + 4:].strip())]
            k = find_top(inner, ': ')
            if k < 0:
                raise MirUnsupported('place: ' + t)
            left, ty = inner[:k], inner[k + 2:].strip()
            base, fld = left.rsplit('.', 1)
            local, pj = prim(base)
            return local, pj + [('field', int(fld), ty)]
        if re.match(r'^_\d+$', t):
            return t, []
        raise MirUnsupported('place: ' + t)

    local, pj = prim(s)
    return Place(local, tuple(pj))


def parse_const(s: str) -> Const:
    # s is the text after 'const '
    s = s.strip()
    if s == 'true':
        return Const('bool', True, 'bool')
    if s == 'false':
        return Const('bool', False, 'bool')
    if s == '()':
        return Const('unit', (), '()')
    m = INT_SUFFIX.match(s)
    if m:
        return Const('int', int(m.group(1)), m.group(2))
    if s.startswith('"'):
        e = scan_string(s, 0)
        if e != len(s):
            raise MirUnsupported('const str tail: ' + s)
        return Const('str', unescape_str(s[1:-1]), '&str')
    if s.startswith('b"'):
        e = scan_string(s, 1)
        if e != len(s):
            raise MirUnsupported('const bytes tail: ' + s)
        return Const('bytes', unescape_bytes(s[2:-1]), '&[u8]')
    m = _CHAR_LIT.match(s)
    if m and m.end() == len(s):
        return Const('char', ord(unescape_str(s[1:-1])), 'char')
    if s.startswith('ZeroSized: '):
        return Const('zst', None, s[len('ZeroSized: '):])
    if s.startswith('{alloc'):
        m = re.match(r'^\{(alloc\d+): (.*)\}$', s)
        return Const('alloc', m.group(1), m.group(2))
    m = FLOAT_SUFFIX.match(s)
    if m:
        return Const('float', float(m.group(1)), m.group(2))
    if s.endswith('{{  }}') or s.endswith('{{}}'):
        return Const('zststruct', None, s[:s.index('{{')].strip())
    if s.startswith('(') or s.startswith('['):
        raise MirUnsupported('aggregate const: ' + s)
    # a named item: path to const / promoted / assoc const / fn item used as value
    return Const('item', s, '')


def parse_operand(s: str):
    s = s.strip()
    if s.startswith('const '):
        return parse_const(s[6:])
    if s.startswith('copy '):
        return Use('copy', parse_place(s[5:]))
    if s.startswith('move '):
        return Use('move', parse_place(s[5:]))
    if s.startswith('no_retag '):
        return parse_operand(s[len('no_retag '):])
    if re.match(r'^[A-Za-z_<]', s):
        return Const('fnitem', s, '')
    raise MirUnsupported('operand: ' + s)


def parse_rvalue(s: str):
    s = s.strip()
    # cast
    if s.startswith(('copy ', 'move ', 'const ')):
        k = find_top(s, ' as ')
        if k >= 0:
            rest = s[k + 4:]
            # "TYPE (Kind)" - kind is the last parenthesised group
            p = rest.rfind(' (')
            if p < 0 or not rest.endswith(')'):
                raise MirUnsupported('cast: ' + s)
            return RCast(parse_operand(s[:k]), rest[:p].strip(), rest[p + 2:-1])
        return parse_operand(s)
    if s.startswith('no_retag '):
        return parse_rvalue(s[len('no_retag '):])
    if s.startswith('&mut '):
        return RRef(True, parse_place(s[5:]))
    if s.startswith('&raw '):
        raise MirUnsupported('raw pointer: ' + s)
    if s.startswith('&'):
        return RRef(False, parse_place(s[1:]))
    if s.startswith('discriminant('):
        return RDiscr(parse_place(s[len('discriminant('):-1]))
    m = re.match(r'^([A-Za-z]+)\(', s)
    if m and (m.group(1) in BINOPS or m.group(1) in UNOPS) and match_close(s, m.end() - 1) == len(s) - 1:
        args = split_top(s[m.end():-1])
        return ROp(m.group(1), tuple(parse_operand(a) for a in args))
    if s.startswith('('):
        if match_close(s, 0) == len(s) - 1:
            inner = s[1:-1].strip()
            parts = split_top(inner) if inner else []
            return RAgg('tuple', '', tuple(parse_operand(a) for a in parts))
    if s.startswith('['):
        if match_close(s, 0) == len(s) - 1:
            inner = s[1:-1]
            k = find_top(inner, '; ')
            if k >= 0:
                return RRepeat(parse_operand(inner[:k]), inner[k + 2:].strip())
            parts = split_top(inner)
            return RAgg('array', '', tuple(parse_operand(a) for a in parts))
    if s.startswith('{closure@') or s.startswith('{coroutine'):
        e = match_close(s, 0)
        path = s[:e + 1]
        rest = s[e + 1:].strip()
        if not rest:
            return RAgg('closure', path, ())
        if rest.startswith('{') and rest.endswith('}'):
            fields, names = _parse_named_fields(rest[1:-1])
            return RAgg('closure', path, fields, names)
        raise MirUnsupported('closure aggregate: ' + s)
    # ADT aggregate: Path { f: op, ...} | Path(op, ...) | Path
    # find end of path: first top-level ' {' or '(' at depth 0 after path
    k_brace = find_top(s, ' {')
    k_par = _find_call_paren(s)
    if k_brace >= 0 and (k_par < 0 or k_brace < k_par):
        path = s[:k_brace].strip()
        body = s[k_brace + 1:].strip()
        if not (body.startswith('{') and body.endswith('}')):
            raise MirUnsupported('adt aggregate: ' + s)
        fields, names = _parse_named_fields(body[1:-1])
        return RAgg('adt', path, fields, names)
    if k_par >= 0:
        if match_close(s, k_par) != len(s) - 1:
            raise MirUnsupported('rvalue: ' + s)
        path = s[:k_par].strip()
        parts = split_top(s[k_par + 1:-1])
        return RAgg('adt', path, tuple(parse_operand(a) for a in parts))
    if re.match(r'^[A-Za-z_<]', s):
        return RAgg('adt', s, ())
    raise MirUnsupported('rvalue: ' + s)


def _find_call_paren(s):
    """Index of '(' at angle/other depth 0 that starts an argument list (not inside <...>)."""
    depth = 0
    i = 0
    n = len(s)
    while i < n:
        c = s[i]
        j = skip_atom(s, i) if c in '"\'' else None
        if j is not None:
            i = j
            continue
        if c == '-' and s.startswith('->', i):
            i += 2
            continue
        if c == '(' and depth == 0:
            return i
        if c in OPEN:
            depth += 1
        elif c in CLOSE:
            depth -= 1
        i += 1
    return -1


def _parse_named_fields(body):
    fields = []
    names = []
    for part in split_top(body):
        if not part:
            continue
        k = find_top(part, ': ')
        names.append(part[:k].strip())
        fields.append(parse_operand(part[k + 2:]))
    return tuple(fields), tuple(names)


def _parse_targets(t):
    # "[return: bb1, unwind continue]" / "[0: bb2, otherwise: bb1]" / "unwind continue"
    t = t.strip()
    out = {}
    if t.startswith('['):
        for part in split_top(t[1:-1]):
            if ':' in part:
                k, v = part.split(':', 1)
                out[k.strip()] = v.strip()
            else:
                out[part.strip()] = None
    elif t.startswith('bb'):
        out['goto'] = t
    else:
        out[t] = None
    return out


def parse_terminator(s: str, line: int) -> Term:
    s = s.strip()
    if s == 'return':
        return Term('return', line=line)
    if s == 'unreachable':
        return Term('unreachable', line=line)
    if s in ('resume', 'terminate(cleanup)', 'terminate(abi)') or s.startswith('terminate'):
        return Term('resume', line=line)
    if s.startswith('goto -> '):
        return Term('goto', {'goto': s[8:].strip()}, line=line)
    k = find_top(s, ' -> ')
    if k < 0:
        raise MirUnsupported('terminator: ' + s)
    head, targets = s[:k], _parse_targets(s[k + 4:])
    if head.startswith('switchInt('):
        return Term('switch', targets, operand=parse_operand(head[len('switchInt('):-1]), line=line)
    if head.startswith('assert('):
        inner = head[len('assert('):-1]
        parts = split_top(inner)
        cond = parts[0]
        neg = False
        if cond.startswith('!'):
            neg = True
            cond = cond[1:]
        return Term('assert', targets, operand=parse_operand(cond), negate=neg, msg=parts[1] if len(parts) > 1 else '',
                    line=line)
    if head.startswith('drop('):
        return Term('drop', targets, operand=parse_place(head[5:-1]), line=line)
    if head.startswith('falseEdge') or head.startswith('falseUnwind'):
        raise MirUnsupported('terminator: ' + s)
    # call: DEST = CALLEE(ARGS)
    k = find_top(head, ' = ')
    if k < 0:
        raise MirUnsupported('terminator: ' + s)
    dest = parse_place(head[:k])
    call = head[k + 3:].strip()
    if not call.endswith(')'):
        raise MirUnsupported('call: ' + s)
    # find the '(' matching the final ')'
    depth = 0
    i = len(call) - 1
    # walk backwards ignoring literals is hard; walk forwards collecting top-level paren starts
    p = _last_top_paren(call)
    callee_txt = call[:p].strip()
    args = tuple(parse_operand(a) for a in split_top(call[p + 1:-1]))
    if callee_txt.startswith(('move ', 'copy ')):
        callee = parse_operand(callee_txt)
    else:
        callee = callee_txt
    return Term('call', targets, callee=callee, args=args, dest=dest, line=line)


def _last_top_paren(s):
    """index of the '(' whose match is the last char of s"""
    depth = 0
    i = 0
    n = len(s)
    cand = -1
    while i < n:
        c = s[i]
        j = skip_atom(s, i) if c in '"\'' else None
        if j is not None:
            i = j
            continue
        if c == '-' and s.startswith('->', i):
            i += 2
            continue
        if c in OPEN:
            if depth == 0 and c == '(':
                cand = i
            depth += 1
        elif c in CLOSE:
            depth -= 1
        i += 1
    if cand < 0 or match_close(s, cand) != n - 1:
        raise MirUnsupported('call parens: ' + s)
    return cand


_HDR_FN = re.compile(r'^fn (.*)$')
_BB = re.compile(r'^    (bb\d+)( \(cleanup\))?: \{$')
_LET = re.compile(r'^\s*let (mut )?(_\d+): (.*);$')


class Mir:
    def __init__(self, text: str):
        self.functions = {}      # name -> [Function,...] (duplicates: CTFE + runtime)
        self.allocs_static = {}  # allocN -> static name
        self.text = text
        self._parse(text)

    def _parse(self, text):
        lines = text.split('\n')
        i = 0
        n = len(lines)
        ctfe_next = False
        while i < n:
            ln = lines[i]
            if ln.startswith('// MIR FOR CTFE'):
                ctfe_next = True
                i += 1
                continue
            if ln.startswith('fn ') or ln.startswith('const ') or ln.startswith('static '):
                j = i
                # body extends to the line that is exactly '}'
                while j < n and lines[j] != '}':
                    j += 1
                # one-line const "const X: T = const 1_u64;" handled: no '{' at end
                if not ln.rstrip().endswith('{'):
                    i += 1
                    ctfe_next = False
                    continue
                f = self._parse_function(lines, i, j)
                f.ctfe = ctfe_next
                ctfe_next = False
                self.functions.setdefault(f.name, []).append(f)
                i = j + 1
                continue
            m = re.match(r'^(alloc\d+) \(static: ([^,]+),', ln)
            if m:
                prev = self.allocs_static.get(m.group(1))
                if prev is not None and prev != m.group(2):
                    raise MirUnsupported('alloc id reused for two statics: ' + m.group(1))
                self.allocs_static[m.group(1)] = m.group(2)
            i += 1

    def add_synthetic(self, text):
        """add harness functions written in MIR syntax (drivers around crate functions)"""
        self._parse(text)

    def _parse_function(self, lines, i0, i1):
        hdr = lines[i0]
        if hdr.startswith('fn '):
            kind = 'fn'
            rest = hdr[3:]
            p = _find_call_paren(rest)
            name = rest[:p].strip()
            e = match_close(rest, p)
            params = []
            ptxt = rest[p + 1:e]
            for part in split_top(ptxt):
                if not part:
                    continue
                k = part.index(': ')
                params.append((part[:k].strip(), part[k + 2:].strip()))
            tail = rest[e + 1:].strip()
            assert tail.startswith('->') and tail.endswith('{'), hdr
            ret = tail[2:-1].strip()
        else:
            kind = 'const' if hdr.startswith('const ') else 'static'
            rest = hdr[len(kind) + 1:]
            if rest.startswith('mut '):
                rest = rest[4:]
            k = find_top(rest, ': ')
            name = rest[:k].strip()
            tail = rest[k + 2:]
            assert tail.endswith(' = {'), hdr
            ret = tail[:-4].strip()
            params = []
        f = Function(name, kind, params, ret, {}, {}, line=i0 + 1)
        for p, t in params:
            f.locals[p] = t
        i = i0 + 1
        cur = None
        while i < i1:
            ln = lines[i]
            m = _BB.match(ln)
            if m:
                cur = m.group(1)
                stmts = []
                i += 1
                term = None
                while i < i1 and lines[i] != '    }':
                    st = lines[i].strip()
                    # statements may span several lines only for long string consts? join until ';'
                    while not _complete_stmt(st):
                        i += 1
                        st += '\n' + lines[i]
                    i += 1
                    if not st:
                        continue
                    st = st[:-1] if st.endswith(';') else st
                    parsed = self._parse_stmt(st, i)
                    if isinstance(parsed, Term):
                        term = parsed
                    elif parsed is not None:
                        stmts.append(parsed)
                if term is None:
                    raise MirUnsupported('block without terminator in %s %s' % (name, cur))
                f.blocks[cur] = Block(stmts, term, cleanup=bool(m.group(2)))
                i += 1
                continue
            m = _LET.match(ln)
            if m:
                f.locals[m.group(2)] = m.group(3)
            i += 1
        return f

    def _parse_stmt(self, st, line):
        if st.startswith(('StorageLive(', 'StorageDead(', 'ConstEvalCounter', 'nop', 'PlaceMention(', 'FakeRead(',
                          'Retag(', 'AscribeUserType(', 'Coverage::', 'BackwardIncompatibleDropHint')):
            return None
        if st.startswith(('Deinit(', 'SetDiscriminant', 'discriminant(', 'Intrinsic(', 'assume(', 'copy_nonoverlapping')):
            raise MirUnsupported('statement: ' + st)
        # terminators
        if st in ('return', 'unreachable', 'resume') or st.startswith(('goto ', 'switchInt(', 'assert(', 'drop(',
                                                                        'terminate')):
            return parse_terminator(st, line)
        k = find_top(st, ' = ')
        if k < 0:
            # maybe a call with unit dest is still "DEST = ..." so anything else is unknown
            raise MirUnsupported('statement: ' + st)
        if find_top(st, ' -> ', k) >= 0:
            return parse_terminator(st, line)
        dest = parse_place(st[:k])
        return Assign(dest, parse_rvalue(st[k + 3:]), line)


def _complete_stmt(st):
    # a statement is complete if it ends with ';' outside of a string literal
    if not st.endswith(';'):
        return st == ''
    # check we are not inside a string
    i = 0
    n = len(st)
    while i < n:
        c = st[i]
        if c == '"':
            try:
                i = scan_string(st, i)
            except MirUnsupported:
                return False
            continue
        if c == "'":
            m = _CHAR_LIT.match(st, i)
            if m:
                i = m.end()
                continue
        i += 1
    return True


if __name__ == '__main__':
    import sys
    import collections
    txt = open(sys.argv[1], encoding='utf-8').read()
    m = Mir(txt)
    print(len(m.functions), 'items;', sum(len(v) for v in m.functions.values()), 'bodies')
    print(len(m.allocs_static), 'static allocs', m.allocs_static)

"""Name resolution between MIR call/const paths and MIR item definitions."""
import os
import re
from .parse import Mir, split_top, find_top, match_close, MirUnsupported

_IMPL_AT = re.compile(r'^<impl at (.*?):(\d+):(\d+): (\d+):(\d+)>$')


def split_path(p):
    """split a path on '::' at bracket depth 0; pure generic-argument segments (::<..>) are dropped"""
    return [x for x in split_top(p, '::') if not (x.startswith('<') and not x.startswith('<impl') and ' as ' not in x)
            or x.startswith('<impl')]


def strip_generics(seg):
    """remove ::<...> and trailing <...> generic arguments of one path segment"""
    if seg.startswith('<'):
        return seg
    k = seg.find('<')
    if k >= 0:
        return seg[:k]
    return seg


def norm_type(t):
    """Type text -> bare path without refs, lifetimes, generics: "&'a mut FindNumbers<'_, L>" -> "FindNumbers" """
    t = t.strip()
    while True:
        if t.startswith('&'):
            t = t[1:].lstrip()
            m = re.match(r"^'[A-Za-z_][A-Za-z0-9_]* ", t)
            if m:
                t = t[m.end():]
            if t.startswith('mut '):
                t = t[4:]
            continue
        break
    if t.startswith('dyn '):
        t = t[4:]
    segs = [strip_generics(s) for s in split_path(t)]
    segs = [s for s in segs if s]
    return '::'.join(segs)


def suffix_match(a, b):
    """True if path a is a '::'-suffix of b or b of a."""
    sa, sb = a.split('::'), b.split('::')
    n = min(len(sa), len(sb))
    return sa[-n:] == sb[-n:]


class Resolver:
    def __init__(self, mir: Mir, repo_root: str):
        self.mir = mir
        self.repo_root = repo_root
        self._src_cache = {}
        self.impl_defs = []     # (self_ty, trait, rest, defname, module)
        self.plain_defs = []    # (path, defname)
        self.closure_defs = {}  # closure type text -> defname
        self.enums = {          # enum name -> [variants]
            'Option': ['None', 'Some'],
            'Result': ['Ok', 'Err'],
            'ControlFlow': ['Continue', 'Break'],
            'Slice': ['Static'],
        }
        self.struct_fields = {}  # struct path -> field names (from aggregates)
        self._index()
        self._scan_enums()

    # ---------------------------------------------------------------- source access
    def _src(self, path):
        if path not in self._src_cache:
            full = path if os.path.isabs(path) else os.path.join(self.repo_root, path)
            try:
                self._src_cache[path] = open(full, encoding='utf-8').read().split('\n')
            except OSError:
                self._src_cache[path] = None
        return self._src_cache[path]

    def _impl_header(self, path, l1, c1, l2, c2):
        src = self._src(path)
        if src is None:
            return None
        if l1 == l2:
            return src[l1 - 1][c1 - 1:c2 - 1]
        parts = [src[l1 - 1][c1 - 1:]] + src[l1:l2 - 1] + [src[l2 - 1][:c2 - 1]]
        return ' '.join(x.strip() for x in parts)

    def _parse_impl_header(self, hdr):
        """'impl<'a, T: X> Trait for Type<'a, T>' -> (trait|None, type); derive(...) spans -> (Trait, None)"""
        hdr = hdr.strip()
        if not hdr.startswith('impl'):
            # derive macro span: the text is the trait name, e.g. "PartialEq" or "Debug"
            if re.match(r'^[A-Za-z_]+$', hdr):
                return hdr, None
            return None, None
        rest = hdr[4:].lstrip()
        if rest.startswith('<'):
            e = match_close(rest, 0)
            rest = rest[e + 1:].lstrip()
        k = find_top(rest, ' for ')
        if k >= 0:
            trait, ty = rest[:k], rest[k + 5:]
        else:
            trait, ty = None, rest
        k = find_top(ty, ' where')
        if k >= 0:
            ty = ty[:k]
        ty = ty.strip().rstrip('{').strip()
        if trait and '$' in trait:
            trait = trait.replace('$crate::', '').replace('$', '')
        if '$' in ty:
            return (norm_type(trait) if trait else None), None
        return (norm_type(trait) if trait else None), ty

    def _index(self):
        for name, fns in self.mir.functions.items():
            segs = split_path(name)
            impl_idx = [i for i, s in enumerate(segs) if s.startswith('<impl at ')]
            f = fns[-1]
            if name.endswith('}') and '{closure#' in segs[-1]:
                if f.params:
                    cty = f.params[0][1]
                    k = cty.find('{closure@')
                    if k >= 0:
                        self.closure_defs[cty[k:]] = name
            if impl_idx:
                i = impl_idx[0]
                m = _IMPL_AT.match(segs[i])
                module = '::'.join(segs[:i])
                rest = '::'.join(strip_generics(s) if not s.startswith('<impl') else s for s in segs[i + 1:])
                trait, ty = (None, None)
                if m:
                    hdr = self._impl_header(m.group(1), int(m.group(2)), int(m.group(3)), int(m.group(4)),
                                            int(m.group(5)))
                    if hdr is not None:
                        trait, ty = self._parse_impl_header(hdr)
                self_tys = []
                ref_self = False
                if ty is not None:
                    ref_self = ty.strip().startswith('&')
                    self_tys = [norm_type(ty)]
                else:
                    # macro-generated impl (bitflags) or derive: Self is the receiver type or the return type
                    prim = ('u8', 'u16', 'u32', 'u64', 'usize', 'bool', 'str', '()', 'char', 'f64', 'isize', 'i32', 'i64')
                    for cand in ([f.params[0][1]] if f.params else []) + ([f.ret] if f.ret else []):
                        c = norm_type(cand)
                        if c and c not in prim and c not in self_tys and not c.startswith(('{', '(', '[')):
                            self_tys.append(c)
                for self_ty in self_tys:
                    self.impl_defs.append((self_ty, trait, rest, name, module, ref_self))
                continue
            else:
                self.plain_defs.append(('::'.join(strip_generics(s) for s in segs), name))
        # struct field names from aggregates
        from .parse import RAgg, Assign
        for name, fns in self.mir.functions.items():
            for f in fns:
                for b in f.blocks.values():
                    for st in b.stmts:
                        if isinstance(st, Assign) and isinstance(st.rv, RAgg) and st.rv.kind == 'adt' and st.rv.names:
                            key = norm_type(st.rv.path)
                            self.struct_fields.setdefault(key, st.rv.names)

    def _scan_enums(self):
        src_dir = os.path.join(self.repo_root, 'src')
        for root, _, files in os.walk(src_dir):
            for fn in files:
                if not fn.endswith('.rs'):
                    continue
                txt = open(os.path.join(root, fn), encoding='utf-8').read()
                for m in re.finditer(r'\benum\s+([A-Za-z_][A-Za-z0-9_]*)\s*(<[^>{]*>)?\s*\{', txt):
                    start = m.end() - 1
                    depth = 0
                    i = start
                    while i < len(txt):
                        if txt[i] == '{':
                            depth += 1
                        elif txt[i] == '}':
                            depth -= 1
                            if depth == 0:
                                break
                        i += 1
                    body = txt[start + 1:i]
                    body = re.sub(r'//[^\n]*', '', body)
                    body = re.sub(r'/\*.*?\*/', '', body, flags=re.S)
                    body = re.sub(r'#\[[^\]]*\]', '', body)
                    variants = []
                    for part in split_top(body):
                        part = part.strip()
                        if not part:
                            continue
                        vm = re.match(r'^([A-Za-z_][A-Za-z0-9_]*)', part)
                        if vm:
                            if '=' in part:
                                raise MirUnsupported('enum with explicit discriminants: ' + m.group(1))
                            variants.append(vm.group(1))
                    name = m.group(1)
                    if name in self.enums and self.enums[name] != variants:
                        raise MirUnsupported('two enums named ' + name)
                    self.enums[name] = variants

    # ---------------------------------------------------------------- lookups
    def variant_index(self, enum_ty, variant):
        key = enum_ty.split('::')[-1]
        vs = self.enums.get(key)
        if vs is None:
            raise MirUnsupported('unknown enum ' + enum_ty)
        if variant not in vs:
            raise MirUnsupported('unknown variant %s of %s' % (variant, enum_ty))
        return vs.index(variant)

    def is_enum_variant_path(self, path):
        """path like 'Result::<(), Error>::Err' -> (enum, variant) or None"""
        segs = [strip_generics(s) for s in split_path(path)]
        segs = [s for s in segs if s]
        if len(segs) >= 2 and segs[-2] in self.enums and segs[-1] in self.enums[segs[-2]]:
            return segs[-2], segs[-1]
        return None

    def find_impl(self, self_ty, trait, rest):
        """all matching impl defs"""
        out = []
        for sty, tr, r, name, module, ref_self in self.impl_defs:
            if r != rest or sty is None:
                continue
            if (trait is None) != (tr is None):
                # inherent query never matches trait impl and vice versa -- except derive spans where the
                # header gave a trait but no type (handled: sty from signature, tr set)
                continue
            if trait is not None and not suffix_match(tr, trait):
                continue
            ds, qs = sty.split('::'), self_ty.split('::')
            if ds[-1] != qs[-1]:
                continue
            dq, qq = ds[:-1], qs[:-1]
            n = min(len(dq), len(qq))
            if n and dq[-n:] != qq[-n:]:
                continue
            if name not in out:
                out.append(name)
        return out

    def find_plain(self, path):
        out = [name for p, name in self.plain_defs if suffix_match(p, path)]
        # prefer exact / longest
        exact = [name for p, name in self.plain_defs if p == path]
        return exact or out

    def resolve_path(self, path, recv_type=None):
        """Resolve a call/const path to a MIR definition name, or None (-> external)."""
        path = path.strip()
        if path.startswith('<'):
            e = match_close(path, 0)
            inner = path[1:e]
            rest_segs = [strip_generics(s) for s in split_path(path[e + 1:].lstrip(':'))]
            rest_segs = [s for s in rest_segs if s]
            rest = '::'.join(rest_segs)
            k = find_top(inner, ' as ')
            if k < 0:
                # <Type>::method (inherent on a complex type)
                x, trait = inner, None
            else:
                x, trait = inner[:k], norm_type(inner[k + 4:])
            if trait and trait.endswith('__BitFlags'):
                xn = norm_type(x)
                mod = xn.split('::')[-2] if '::' in xn else None
                cands = [n for n in self.mir.functions if n.endswith('>::' + rest) and '::all::<impl at' in n
                         and (mod is None or n.startswith(mod + '::'))]
                if len(cands) == 1:
                    return cands[0]
                return None
            xn = norm_type(x)
            if recv_type is not None and (xn in ('Self',) or re.match(r'^[A-Z][A-Za-z0-9]?$', xn)
                                          or xn.startswith('<')):
                xn = recv_type
            cands = self.find_impl(xn, trait, rest)
            if len(cands) == 1:
                return cands[0]
            if len(cands) > 1:
                raise MirUnsupported('ambiguous impl for %s: %s' % (path, cands))
            if trait:
                # default method of a crate trait
                d = self.find_plain(trait.split('::')[-1] + '::' + rest)
                if len(d) == 1:
                    return d[0]
            return None
        raw = split_path(path)
        if any(x.startswith('<impl ') for x in raw) and path not in self.mir.functions:
            return None      # inherent method of a foreign (std) type, e.g. core::char::methods::<impl char>::is_whitespace
        segs = [strip_generics(s) for s in raw]
        segs = [s for s in segs if s]
        # promoted / closures hanging off a method: Type::method::promoted[0]
        for cut in range(len(segs) - 1, 0, -1):
            ty = '::'.join(segs[:cut])
            rest = '::'.join(segs[cut:])
            cands = self.find_impl(ty, None, rest)
            if len(cands) == 1:
                return cands[0]
            if len(cands) > 1:
                raise MirUnsupported('ambiguous inherent item %s: %s' % (path, cands))
        d = self.find_plain('::'.join(segs))
        if len(d) == 1:
            return d[0]
        if len(d) > 1:
            raise MirUnsupported('ambiguous item %s: %s' % (path, d))
        return None

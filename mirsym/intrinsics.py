"""Models of functions outside the crate (std, phf, daachorse) = the trusted base of mirsym.

Every model is registered under the short key produced by Executor.intrinsic_key and dispatches on the
*values* it receives.  Each one states its panics as obligations (ex.panic_if).
"""
import z3
from dataclasses import dataclass
from typing import Any
from .values import *

REG = {}


def intrinsic(*keys):
    def deco(f):
        for k in keys:
            REG[k] = f
        return f
    return deco


def install(ex):
    from . import strings  # noqa: registers the str/fmt models
    from . import extern_models  # noqa
    from . import harness  # noqa
    ex.intrinsics.update(REG)


def some(v):
    return Enum('Option', 1, ((1, (v,)),))


NONE = Enum('Option', 0, ((0, ()),))


def option(cond, v):
    """Option that is Some(v) iff cond"""
    cb = concrete_bool(cond)
    if cb is True:
        return some(v)
    if cb is False:
        return NONE
    return Enum('Option', z3.If(cond, z3.BitVecVal(1, 64), z3.BitVecVal(0, 64)), ((0, ()), (1, (v,))))


def ok(v):
    return Enum('Result', 0, ((0, (v,)),))


def err(v):
    return Enum('Result', 1, ((1, (v,)),))


def ult(a, b):
    if not is_sym(a) and not is_sym(b):
        return a < b
    return z3.ULT(bv(a, 64), bv(b, 64))


def ule(a, b):
    if not is_sym(a) and not is_sym(b):
        return a <= b
    return z3.ULE(bv(a, 64), bv(b, 64))


def add64(a, b):
    if not is_sym(a) and not is_sym(b):
        return (a + b) & ((1 << 64) - 1)
    return bv(a, 64) + bv(b, 64)


def sub64(a, b):
    if not is_sym(a) and not is_sym(b):
        return (a - b) & ((1 << 64) - 1)
    return bv(a, 64) - bv(b, 64)


def eq_any(a, b, w=None):
    if not is_sym(a) and not is_sym(b):
        return a == b
    if isinstance(a, (bool, z3.BoolRef)) or isinstance(b, (bool, z3.BoolRef)):
        return zbool(a) == zbool(b)
    if w is None:
        w = a.size() if is_sym(a) else b.size()
    return bv(a, w) == bv(b, w)


def as_seq(ex, v):
    """read-only view of anything slice-like as a Seq"""
    v = ex.deref(v)
    if isinstance(v, Choice):
        v = ex.concretize(v)
    if isinstance(v, Seq):
        return v
    if isinstance(v, MutSlice):
        return ex.mutslice_read(v)
    if isinstance(v, Struct) and v.ty == 'DigitString':
        raise Unsupported('as_seq of DigitString')
    raise Unsupported('not a sequence: %r' % type(v))


def seq_to_symbolic(ex, s: Seq, cap=None):
    """give a concrete-length Seq spare capacity so that its length may become symbolic"""
    cap = cap or ex.cap
    if s.cap >= cap:
        return s
    fill = 0 if (s.ety in ('u8', 'usize', 'u64') or any(isinstance(e, int) or is_sym(e) for e in s.elems)) else UNINIT
    return Seq(s.elems + (fill,) * (cap - s.cap), s.len, s.ety)


def seq_eq(ex, a: Seq, b: Seq, w=8):
    la, lb = concrete_int(a.len), concrete_int(b.len)
    if la is not None and lb is not None:
        if la != lb:
            return False
        return And(*[eq_any(x, y, w) for x, y in zip(a.elems[:la], b.elems[:lb])])
    n = min(a.cap, b.cap)
    conds = [eq_any(a.len, b.len, 64)]
    big = a if a.cap > b.cap else b
    # the longer-capacity one must have len <= n for equality; covered by len equality + other's cap
    for i in range(n):
        conds.append(Or(ule(a.len, i), eq_any(a.elems[i], b.elems[i], w)))
    return And(*conds)


def seq_lt(ex, a: Seq, b: Seq, w=8):
    """lexicographic a < b on unsigned elements"""
    n = max(a.cap, b.cap)
    res = False   # value when all compared equal and both exhausted
    # process from the end: lt_i = if i>=la: (i<lb) elif i>=lb: False elif a[i]<b[i]: True elif a[i]>b[i]: False else lt_{i+1}
    lt = ult(a.len, b.len) if False else None
    nxt = False
    for i in range(n - 1, -1, -1):
        ia = ult(i, a.len) if i < a.cap else False
        ib = ult(i, b.len) if i < b.cap else False
        ai = a.elems[i] if i < a.cap else 0
        bi = b.elems[i] if i < b.cap else 0
        less = _ult_w(ai, bi, w)
        greater = _ult_w(bi, ai, w)
        cur = _ite_b(Not(ia), ib, _ite_b(Not(ib), False, _ite_b(less, True, _ite_b(greater, False, nxt))))
        nxt = cur
    if n == 0:
        return False
    return nxt


def _ult_w(a, b, w):
    if not is_sym(a) and not is_sym(b):
        return a < b
    return z3.ULT(bv(a, w), bv(b, w))


def _ite_b(c, a, b):
    cb = concrete_bool(c) if not isinstance(c, bool) else c
    if cb is True:
        return a
    if cb is False:
        return b
    return z3.If(c, zbool(a), zbool(b))


# ------------------------------------------------------------------ Vec<T> / slices

@intrinsic('Vec::with_capacity', 'Vec::new')
def vec_new(ex, args):
    return Seq((), 0, '')


@intrinsic('Vec::len', '[u8]::len', '[T]::len', 'VecDeque::len')
def vec_len(ex, args):
    return as_seq(ex, args[0]).len


@intrinsic('Vec::is_empty', '[u8]::is_empty', '[T]::is_empty', 'VecDeque::is_empty')
def vec_is_empty(ex, args):
    return eq_any(as_seq(ex, args[0]).len, 0, 64)


@intrinsic('Vec::clear')
def vec_clear(ex, args):
    r = args[0]
    old = ex.read_ref(r)
    ex.write_ref(r, Seq((), 0, old.ety))
    return UNIT


def _set_elem_ty(s, v):
    if s.ety:
        return s.ety
    if isinstance(v, int) and not isinstance(v, bool) or isinstance(v, z3.BitVecRef):
        return ''
    return ''


@intrinsic('Vec::push', 'VecDeque::push_back')
def vec_push(ex, args):
    r, v = args
    s = ex.read_ref(r)
    ex.write_ref(r, seq_append(ex, s, Seq((v,), 1, s.ety)))
    return UNIT


def seq_append(ex, s: Seq, t: Seq):
    ls, lt = concrete_int(s.len), concrete_int(t.len)
    if ls is not None and lt is not None and not is_sym(s.len):
        return Seq(s.elems[:ls] + t.elems[:lt], ls + lt, s.ety or t.ety)
    cap = max(ex.cap, s.cap)
    s2 = seq_to_symbolic(ex, s, cap)
    newlen = add64(s.len, t.len)
    ex.bound_if(Not(ule(newlen, cap)), 'sequence longer than capacity %d' % cap)
    w = width_of_type(s.ety) if s.ety else None
    el = []
    for j in range(cap):
        # element j: if j < s.len: s[j] else t[j - s.len]
        old = s2.elems[j]
        if t.cap == 0:
            el.append(old)
            continue
        off = sub64(j, s.len)
        co = concrete_int(off)
        if co is not None and co >= t.cap:
            new = old if old is not UNINIT else 0      # beyond the new length: unobservable
        else:
            new = ex.seq_get(t, off) if t.cap > 1 or is_sym(off) else t.elems[0]
        if old is UNINIT:
            el.append(new)
        else:
            el.append(ite(ult(j, s.len), old, new, w))
    return Seq(tuple(el), newlen, s.ety or t.ety)


@intrinsic('Vec::extend_from_slice')
def vec_extend(ex, args):
    r, src = args
    s = ex.read_ref(r)
    t = as_seq(ex, src)
    if not s.ety:
        s = Seq(s.elems, s.len, 'u8')
    ex.write_ref(r, seq_append(ex, s, t))
    return UNIT


@intrinsic('Vec::resize')
def vec_resize(ex, args):
    r, newlen, val = args
    s = ex.read_ref(r)
    ety = s.ety or 'u8'
    cl, cn = concrete_int(s.len), concrete_int(newlen)
    if cl is not None and cn is not None and not is_sym(s.len):
        if cn <= cl:
            ex.write_ref(r, Seq(s.elems[:cn], cn, ety))
        else:
            ex.write_ref(r, Seq(s.elems[:cl] + (val,) * (cn - cl), cn, ety))
        return UNIT
    cap = max(ex.cap, s.cap)
    ex.bound_if(Not(ule(newlen, cap)), 'resize beyond capacity %d' % cap)
    s2 = seq_to_symbolic(ex, s, cap)
    w = width_of_type(ety)
    el = [ite(ult(j, s.len), s2.elems[j], val, w) for j in range(cap)]
    ex.write_ref(r, Seq(tuple(el), newlen, ety))
    return UNIT


@intrinsic('Vec::as_slice', 'String::as_str', 'String::as_bytes', 'str::as_bytes', 'Vec::as_mut_slice')
def as_slice(ex, args):
    v = args[0]
    if isinstance(v, Ref):
        return ex.read_ref(v)
    return v


@intrinsic('Deref::deref', 'Borrow::borrow', 'AsRef::as_ref')
def deref(ex, args):
    v = args[0]
    if isinstance(v, Ref):
        return ex.read_ref(v)
    return v


@intrinsic('DerefMut::deref_mut')
def deref_mut(ex, args):
    r = args[0]
    s = ex.read_ref(r)
    if isinstance(s, Seq):
        return MutSlice(r, 0, s.len)
    return r


def _range_parts(rng):
    if isinstance(rng, Struct):
        if rng.ty == 'Range':
            return rng.fields[0], rng.fields[1]
        if rng.ty == 'RangeFrom':
            return rng.fields[0], None
        if rng.ty == 'RangeTo':
            return 0, rng.fields[0]
    return None


@intrinsic('Index::index')
def index(ex, args):
    base, idx = args
    basev = ex.deref(base)
    if isinstance(basev, Choice):
        basev = ex.concretize(basev)
    if isinstance(basev, (str, SymStr)):
        from . import strings
        return strings.str_index(ex, basev, idx)
    s = as_seq(ex, basev)
    rp = _range_parts(idx)
    if rp is None:
        ex.panic_if(Not(ult(idx, s.len)), 'index out of bounds', 'Index::index')
        return ex.seq_get(s, idx)
    start, end = rp
    if end is None:
        end = s.len
    ex.panic_if(Not(ule(start, end)), 'slice index starts after end')
    ex.panic_if(Not(ule(end, s.len)), 'slice end index out of range')
    return ex.seq_slice(s, start, sub64(end, start))


@intrinsic('IndexMut::index_mut')
def index_mut(ex, args):
    base, idx = args
    rp = _range_parts(idx)
    if isinstance(base, MutSlice):
        ln = base.len
        if rp is None:
            ex.panic_if(Not(ult(idx, ln)), 'index out of bounds', 'IndexMut::index_mut')
            return Ref(base.ref.fid, base.ref.local, base.ref.path + (('idx', add64(base.start, idx)),))
        start, end = rp
        if end is None:
            end = ln
        ex.panic_if(Not(ule(start, end)), 'slice index starts after end')
        ex.panic_if(Not(ule(end, ln)), 'slice end index out of range')
        return MutSlice(base.ref, add64(base.start, start), sub64(end, start))
    if not isinstance(base, Ref):
        raise Unsupported('index_mut on %r' % type(base))
    s = ex.read_ref(base)
    if not isinstance(s, Seq):
        raise Unsupported('index_mut into %r' % type(s))
    if rp is None:
        ex.panic_if(Not(ult(idx, s.len)), 'index out of bounds', 'IndexMut::index_mut')
        return Ref(base.fid, base.local, base.path + (('idx', idx),))
    start, end = rp
    if end is None:
        end = s.len
    ex.panic_if(Not(ule(start, end)), 'slice index starts after end')
    ex.panic_if(Not(ule(end, s.len)), 'slice end index out of range')
    return MutSlice(base, start, sub64(end, start))


@intrinsic('[u8]::copy_from_slice', '[T]::copy_from_slice')
def copy_from_slice(ex, args):
    dst, src = args
    if not isinstance(dst, MutSlice):
        raise Unsupported('copy_from_slice into %r' % type(dst))
    s = as_seq(ex, src)
    ex.panic_if(Not(eq_any(dst.len, s.len, 64)), 'copy_from_slice: length mismatch')
    ex.mutslice_write(dst, s)
    return UNIT


@intrinsic('[u8]::split_at_mut', '[T]::split_at_mut')
def split_at_mut(ex, args):
    sl, mid = args
    if isinstance(sl, Ref):
        s = ex.read_ref(sl)
        sl = MutSlice(sl, 0, s.len)
    ex.panic_if(Not(ule(mid, sl.len)), 'split_at_mut: mid > len')
    return (MutSlice(sl.ref, sl.start, mid), MutSlice(sl.ref, add64(sl.start, mid), sub64(sl.len, mid)))


@intrinsic('[u8]::swap_with_slice', '[T]::swap_with_slice')
def swap_with_slice(ex, args):
    a, b = args
    if not (isinstance(a, MutSlice) and isinstance(b, MutSlice)):
        raise Unsupported('swap_with_slice operands')
    ex.panic_if(Not(eq_any(a.len, b.len, 64)), 'swap_with_slice: length mismatch')
    da = ex.mutslice_read(a)
    db = ex.mutslice_read(b)
    ex.mutslice_write(a, Seq(db.elems, a.len, db.ety))
    ex.mutslice_write(b, Seq(da.elems, a.len, da.ety))
    return UNIT


# ------------------------------------------------------------------ iterators

class IterBase:
    type_name = None

    def merge_key(self):
        return None


@dataclass(frozen=True, eq=False)
class SliceIter(IterBase):
    seq: Seq
    pos: Any = 0          # concrete int position
    back: Any = 0         # elements consumed from the back

    def next(self, ex):
        s = self.seq
        cond = ult(add64(self.pos, self.back), s.len)
        cb = concrete_bool(cond)
        if cb is False:
            return NONE, self
        item = ex.seq_get(s, self.pos) if self.pos < s.cap else UNINIT
        nxt = SliceIter(s, self.pos + 1, self.back)
        if cb is True:
            return some(item), nxt
        # symbolic exhaustion: iterator state after a None is irrelevant (fused)
        return option(cond, item), nxt

    def next_back(self, ex):
        s = self.seq
        cond = ult(add64(self.pos, self.back), s.len)
        cb = concrete_bool(cond)
        if cb is False:
            return NONE, self
        idx = sub64(sub64(s.len, 1), self.back)
        item = ex.seq_get(s, idx)
        nxt = SliceIter(s, self.pos, self.back + 1)
        return option(cond, item), nxt

    def merge_with(self, c, other):
        if isinstance(other, SliceIter) and other.pos == self.pos and other.back == self.back:
            return SliceIter(seq_ite(c, self.seq, other.seq), self.pos, self.back)
        return None

    def merge_key(self):
        return ('slice', self.pos, self.back)

    def shape(self, ex):
        return ('SliceIter', self.pos, self.back, ex.shape_of(self.seq))

    def same_as(self, o):
        return self.pos == o.pos and self.back == o.back and same(self.seq, o.seq)

    def remaining(self, ex):
        """Seq of the remaining items (front to back)"""
        s = self.seq
        return ex.seq_slice(s, self.pos, sub64(sub64(s.len, self.pos), self.back))


@dataclass(frozen=True, eq=False)
class Enumerate(IterBase):
    inner: Any
    count: Any = 0          # usize, possibly symbolic after a merge

    def next(self, ex):
        item, ni = iter_next(ex, self.inner)
        nxt = Enumerate(ni, add64(self.count, 1))
        cnt = self.count
        return map_option(item, lambda v: (cnt, v)), nxt

    def merge_with(self, c, other):
        if isinstance(other, Enumerate):
            inner = ite(c, self.inner, other.inner)
            if isinstance(inner, Choice):
                return None
            return Enumerate(inner, ite(c, self.count, other.count, 64))
        return None

    def same_as(self, o):
        return same(self.count, o.count) and same(self.inner, o.inner)

    def merge_key(self):
        return ('enum', getattr(self.inner, 'merge_key', lambda: None)())

    def shape(self, ex):
        return ('Enumerate', ex.shape_of(self.inner))


@dataclass(frozen=True, eq=False)
class Rev(IterBase):
    inner: Any

    def next(self, ex):
        item, ni = self.inner.next_back(ex)
        return item, Rev(ni)

    def merge_with(self, c, other):
        if isinstance(other, Rev):
            return Rev(ite(c, self.inner, other.inner))
        return None

    def same_as(self, o):
        return same(self.inner, o.inner)


@dataclass(frozen=True, eq=False)
class TakeWhile(IterBase):
    inner: Any
    pred: Any


@dataclass(frozen=True, eq=False)
class FilterMap(IterBase):
    inner: Any
    f: Any


@dataclass(frozen=True, eq=False)
class MapIter(IterBase):
    inner: Any
    f: Any

    def next(self, ex):
        item, ni = iter_next(ex, self.inner)
        nxt = MapIter(ni, self.f)
        item = ex.concretize(item) if isinstance(item, Choice) else item
        d = concrete_int(item.disc)
        if d is None:
            d = 1 if ex.branch(item.disc == 1) else 0
        if d == 0:
            return NONE, nxt
        return some(ex.call_value(self.f, [item.payload(1)[0]])), nxt


def map_option(opt: Enum, f):
    p = opt.payload(1)
    if p is None:
        return opt
    return Enum('Option', opt.disc, tuple(sorted({**dict(opt.payloads), 1: (f(p[0]),)}.items())))


def iter_next(ex, it):
    """-> (Option value, new iterator value)"""
    if isinstance(it, Choice):
        it = ex.concretize(it)
    if hasattr(it, 'next'):
        return it.next(ex)
    if isinstance(it, Struct):
        # a crate type implementing Iterator: run its MIR `next` on a temporary cell
        r = ex.tmp_cell(it)
        item = ex.call_path('<%s as Iterator>::next' % it.ty, [r])
        ni = ex.read_ref(r)
        del ex.roots[r.local]
        return item, ni
    raise Unsupported('next() on %r' % type(it))


def opt_is_some(ex, opt):
    """fork on an Option: -> payload value or None"""
    if isinstance(opt, Choice):
        opt = ex.concretize(opt)
    d = concrete_int(opt.disc)
    if d is None:
        d = 1 if ex.branch(bv(opt.disc, 64) == 1) else 0
    if d == 0:
        return None
    return opt.payload(1)


@intrinsic('[u8]::iter', '[T]::iter', '[usize]::iter', 'Vec::iter', '[BasicToken]::iter')
def slice_iter(ex, args):
    return SliceIter(as_seq(ex, args[0]))


@intrinsic('IntoIterator::into_iter')
def into_iter(ex, args):
    v = args[0]
    v = ex.deref(v) if not isinstance(v, Ref) else ex.read_ref(v)
    if isinstance(v, Choice):
        v = ex.concretize(v)
    if isinstance(v, Seq):
        return SliceIter(v)
    if isinstance(v, MutSlice):
        return SliceIter(ex.mutslice_read(v))
    return v   # already an iterator


@dataclass(frozen=True, eq=False)
class Zip(IterBase):
    a: Any
    b: Any

    def next(self, ex):
        ia, na = iter_next(ex, self.a)
        pa = opt_is_some(ex, ia)
        if pa is None:
            return NONE, Zip(na, self.b)
        ib, nb = iter_next(ex, self.b)
        pb = opt_is_some(ex, ib)
        if pb is None:
            return NONE, Zip(na, nb)
        return some((pa[0], pb[0])), Zip(na, nb)


@intrinsic('Iterator::zip')
def it_zip(ex, args):
    return Zip(args[0], into_iter(ex, [args[1]]))


@intrinsic('Iterator::enumerate')
def it_enumerate(ex, args):
    return Enumerate(args[0])


@intrinsic('Iterator::rev')
def it_rev(ex, args):
    return Rev(args[0])


@intrinsic('Iterator::take_while')
def it_take_while(ex, args):
    return TakeWhile(args[0], args[1])


@intrinsic('Iterator::filter_map')
def it_filter_map(ex, args):
    return FilterMap(args[0], args[1])


@intrinsic('Iterator::map')
def it_map(ex, args):
    return MapIter(args[0], args[1])


@intrinsic('Iterator::next')
def it_next(ex, args):
    r = args[0]
    at_merge = ex._at_merge_next
    ex._at_merge_next = False
    if isinstance(r, Ref):
        it = ex.read_ref(r)
        item, ni = iter_next(ex, it)
        ex.write_ref(r, ni)
        if at_merge and isinstance(item, Enum) and item.payload(1) is not None:
            # the scanner's loop over tokens: a token that is a choice of alternatives is fixed here (one path per
            # alternative, merged again at the next token)
            v = item.payload(1)[0]
            if isinstance(v, tuple) and len(v) == 2 and isinstance(v[1], Choice):
                v = (v[0], ex.concretize(v[1]))
                item = Enum('Option', item.disc, tuple(sorted({**dict(item.payloads), 1: (v,)}.items())))
            elif isinstance(v, Choice):
                item = Enum('Option', item.disc, tuple(sorted({**dict(item.payloads), 1: (ex.concretize(v),)}.items())))
        return item
    item, ni = iter_next(ex, r)
    return item


def _items_of_slice_iter(ex, it):
    """(elements list, validity condition per element) for a SliceIter or string chars"""
    if isinstance(it, Ref):
        it = ex.read_ref(it)
    if isinstance(it, Choice):
        it = ex.concretize(it)
    if isinstance(it, SliceIter):
        s = it.seq
        out = []
        for j in range(it.pos, s.cap):
            valid = ult(add64(j, it.back), s.len)
            if concrete_bool(valid) is False:
                break
            out.append((s.elems[j], valid))
        return out
    if isinstance(it, Zip):
        # both sides yield a prefix (validity is monotone), so the pair is valid iff both elements are
        la, lb = _items_of_slice_iter(ex, it.a), _items_of_slice_iter(ex, it.b)
        return [((va, vb), And(ca, cb)) for (va, ca), (vb, cb) in zip(la, lb)]
    from . import strings
    if isinstance(it, strings.Chars):
        return [(c, True) for c in it.remaining_chars()]
    if isinstance(it, strings.Bytes):
        return [(c, True) for c in it.remaining_bytes()]
    raise Unsupported('bulk iteration over %r' % type(it))


@intrinsic('Iterator::all')
def it_all(ex, args):
    it, f = args
    res = True
    for v, valid in _items_of_slice_iter(ex, it):
        r = ex.call_value(f, [v])
        res = And(res, Or(Not(valid), r))
        if concrete_bool(res) is False:
            return False
    if isinstance(it, Ref):
        pass   # the iterator is not used after `all` in this crate (temporary); left untouched
    return res


@intrinsic('Iterator::any')
def it_any(ex, args):
    it, f = args
    res = False
    for v, valid in _items_of_slice_iter(ex, it):
        r = ex.call_value(f, [v])
        res = Or(res, And(valid, r))
    return res


@intrinsic('Iterator::count')
def it_count(ex, args):
    it = args[0]
    if isinstance(it, TakeWhile):
        # the count feeds index arithmetic: fork on every element so that it stays a concrete integer
        total = 0
        for v, valid in _items_of_slice_iter(ex, it.inner):
            r = ex.call_value(it.pred, [v])
            if not ex.branch(zbool(And(valid, r))):
                break
            total += 1
        return total
    raise Unsupported('count on %r' % type(it))


@intrinsic('Iterator::collect', 'FromIterator::from_iter')
def it_collect(ex, args):
    it = args[0]
    if hasattr(it, 'collect_all'):
        return it.collect_all(ex)
    out = []
    while True:
        item, it = iter_next(ex, it)
        p = opt_is_some(ex, item)
        if p is None:
            break
        out.append(p[0])
        if len(out) > 4096:
            raise Unsupported('collect does not terminate')
    return Seq(tuple(out), len(out), '')


# FilterMap.next (needs forks)
def _filter_map_next(self, ex):
    it = self.inner
    while True:
        item, it = iter_next(ex, it)
        p = opt_is_some(ex, item)
        if p is None:
            return NONE, FilterMap(it, self.f)
        r = ex.call_value(self.f, [p[0]])
        q = opt_is_some(ex, r)
        if q is not None:
            return some(q[0]), FilterMap(it, self.f)


FilterMap.next = _filter_map_next


# ------------------------------------------------------------------ comparisons

@intrinsic('PartialEq::eq')
def partial_eq(ex, args):
    a, b = ex.deref(args[0]), ex.deref(args[1])
    if isinstance(a, Choice):
        a = ex.concretize(a)
    if isinstance(b, Choice):
        b = ex.concretize(b)
    return values_eq(ex, a, b)


@intrinsic('PartialEq::ne')
def partial_ne(ex, args):
    return Not(partial_eq(ex, args))


def values_eq(ex, a, b):
    from . import strings
    if isinstance(a, (str, SymStr)) or isinstance(b, (str, SymStr)):
        return strings.str_eq(ex, a, b)
    if isinstance(a, (Seq, MutSlice)) and isinstance(b, (Seq, MutSlice)):
        return seq_eq(ex, as_seq(ex, a), as_seq(ex, b))
    if isinstance(a, Struct) and isinstance(b, Struct) or isinstance(a, Enum) and isinstance(b, Enum):
        # crate types with derived PartialEq have MIR; try to dispatch
        ty = a.ty
        cands = ex.res.find_impl(ty, 'PartialEq', 'eq')
        if len(cands) == 1:
            return ex.call_nested(ex.mir.functions[cands[0]][-1], [a, b])
        raise Unsupported('PartialEq for ' + ty)
    if isinstance(a, (int, bool)) or is_sym(a):
        return eq_any(a, b)
    if isinstance(a, tuple) and isinstance(b, tuple) and len(a) == len(b):
        return And(*[values_eq(ex, x, y) for x, y in zip(a, b)])
    raise Unsupported('eq of %r and %r' % (type(a), type(b)))


@intrinsic('PartialOrd::lt')
def partial_lt(ex, args):
    a, b = ex.deref(args[0]), ex.deref(args[1])
    if isinstance(a, (Seq, MutSlice)):
        return seq_lt(ex, as_seq(ex, a), as_seq(ex, b))
    raise Unsupported('lt of %r' % type(a))


@intrinsic('Ord::min')
def ord_min(ex, args):
    a, b = args
    if not is_sym(a) and not is_sym(b):
        return min(a, b)
    return z3.If(z3.ULE(bv(a, 64), bv(b, 64)), bv(a, 64), bv(b, 64))


@intrinsic('Ord::max')
def ord_max(ex, args):
    a, b = args
    if not is_sym(a) and not is_sym(b):
        return max(a, b)
    return z3.If(z3.UGE(bv(a, 64), bv(b, 64)), bv(a, 64), bv(b, 64))


# ------------------------------------------------------------------ Option / Result

@intrinsic('Try::branch')
def try_branch(ex, args):
    v = args[0]
    if isinstance(v, Choice):
        v = ex.concretize(v)
    # Result<T,E> -> ControlFlow<Result<Infallible,E>, T>; Option<T> -> ControlFlow<Option<Infallible>, T>
    if v.ty == 'Result':
        okp, errp = v.payload(0), v.payload(1)
        pl = {}
        if okp is not None:
            pl[0] = okp
        if errp is not None:
            pl[1] = (Enum('Result', 1, ((1, errp),)),)
        return Enum('ControlFlow', v.disc, tuple(sorted(pl.items())))
    if v.ty == 'Option':
        # Some(x) -> Continue(x) ; None -> Break(None)
        d = v.disc
        nd = (1 - d) if not is_sym(d) else z3.If(bv(d, 64) == 1, z3.BitVecVal(0, 64), z3.BitVecVal(1, 64))
        pl = {}
        if v.payload(1) is not None:
            pl[0] = v.payload(1)
        if v.payload(0) is not None:
            pl[1] = (NONE,)
        return Enum('ControlFlow', nd, tuple(sorted(pl.items())))
    raise Unsupported('Try::branch on ' + v.ty)


@intrinsic('FromResidual::from_residual')
def from_residual(ex, args):
    return args[0]


def _enum(ex, v):
    v = ex.deref(v)
    if isinstance(v, Choice):
        v = ex.concretize(v)
    return v


@intrinsic('Result::is_ok')
def result_is_ok(ex, args):
    return eq_any(_enum(ex, args[0]).disc, 0, 64)


@intrinsic('Result::is_err')
def result_is_err(ex, args):
    return eq_any(_enum(ex, args[0]).disc, 1, 64)


@intrinsic('Option::is_some')
def option_is_some(ex, args):
    return eq_any(_enum(ex, args[0]).disc, 1, 64)


@intrinsic('Option::is_none')
def option_is_none(ex, args):
    return eq_any(_enum(ex, args[0]).disc, 0, 64)


@intrinsic('Result::unwrap')
def result_unwrap(ex, args):
    v = _enum(ex, args[0])
    ex.panic_if(Not(eq_any(v.disc, 0, 64)), 'unwrap on Err', 'Result::unwrap')
    return v.payload(0)[0]


@intrinsic('Option::unwrap')
def option_unwrap(ex, args):
    v = _enum(ex, args[0])
    ex.panic_if(Not(eq_any(v.disc, 1, 64)), 'unwrap on None', 'Option::unwrap')
    return v.payload(1)[0]


@intrinsic('Option::take')
def option_take(ex, args):
    r = args[0]
    v = ex.read_ref(r)
    ex.write_ref(r, NONE)
    return v


@intrinsic('Option::replace')
def option_replace(ex, args):
    r, new = args
    v = ex.read_ref(r)
    ex.write_ref(r, some(new))
    return v


@intrinsic('Option::filter')
def option_filter(ex, args):
    opt, f = args
    p = opt_is_some(ex, opt)
    if p is None:
        return NONE
    keep = ex.call_value(f, [p[0]])
    if ex.branch(zbool(keep)):
        return some(p[0])
    return NONE


@intrinsic('Result::map')
def result_map(ex, args):
    v, f = args
    v = _enum(ex, v)
    d = concrete_int(v.disc)
    if d is None:
        d = 0 if ex.branch(bv(v.disc, 64) == 0) else 1
    if d == 0:
        return ok(ex.call_value(f, [v.payload(0)[0]]))
    return Enum('Result', 1, ((1, v.payload(1)),))


@intrinsic('must_use')
def must_use(ex, args):
    return args[0]


@intrinsic('Clone::clone')
def clone(ex, args):
    return ex.deref(args[0])


# ------------------------------------------------------------------ VecDeque / Vec<T> structural operations

@intrinsic('VecDeque::with_capacity', 'VecDeque::new')
def vecdeque_new(ex, args):
    return Seq((), 0, '')


@intrinsic('VecDeque::pop_front')
def vecdeque_pop_front(ex, args):
    r = args[0]
    s = ex.read_ref(r)
    n = concrete_int(s.len)
    if n is not None and not is_sym(s.len):
        if n == 0:
            return NONE
        ex.write_ref(r, Seq(s.elems[1:n], n - 1, s.ety))
        return some(s.elems[0])
    nonempty = Not(eq_any(s.len, 0, 64))
    first = s.elems[0] if s.cap else UNINIT
    rest = Seq(s.elems[1:] + (s.elems[-1],) if s.cap else (), ite(nonempty, sub64(s.len, 1), 0, 64), s.ety)
    ex.write_ref(r, rest)
    return option(nonempty, first)


@intrinsic('VecDeque::pop_back', 'Vec::pop')
def vec_pop(ex, args):
    r = args[0]
    s = ex.read_ref(r)
    n = ex.concretize_int(s.len, 0, s.cap, 'length')
    if n == 0:
        return NONE
    ex.write_ref(r, Seq(s.elems[:n - 1], n - 1, s.ety))
    return some(s.elems[n - 1])


@intrinsic('Into::into', 'Vec::from', 'VecDeque::into')
def into_identity(ex, args):
    return args[0]


@intrinsic('Vec::drain')
def vec_drain(ex, args):
    r, rng = args
    s = ex.read_ref(r)
    start, end = _range_parts(rng)
    if end is None:
        end = s.len
    ex.panic_if(Not(ule(start, end)), 'drain: start > end')
    ex.panic_if(Not(ule(end, s.len)), 'drain: end > len')
    n = ex.concretize_int(s.len, 0, s.cap, 'vector length')
    st = ex.concretize_int(start, 0, n, 'drain start')
    en = ex.concretize_int(end, st, n, 'drain end')
    removed = s.elems[st:en]
    ex.write_ref(r, Seq(s.elems[:st] + s.elems[en:n], n - (en - st), s.ety))
    return SliceIter(Seq(removed, len(removed), s.ety))


@intrinsic('Vec::insert')
def vec_insert(ex, args):
    r, idx, v = args
    s = ex.read_ref(r)
    ex.panic_if(Not(ule(idx, s.len)), 'insert: index > len')
    n = ex.concretize_int(s.len, 0, s.cap, 'vector length')
    i = ex.concretize_int(idx, 0, n, 'insert index')
    ex.write_ref(r, Seq(s.elems[:i] + (v,) + s.elems[i:n], n + 1, s.ety))
    return UNIT


@intrinsic('Vec::remove')
def vec_remove(ex, args):
    r, idx = args
    s = ex.read_ref(r)
    ex.panic_if(Not(ult(idx, s.len)), 'remove: index out of bounds')
    n = ex.concretize_int(s.len, 0, s.cap, 'vector length')
    i = ex.concretize_int(idx, 0, n - 1, 'remove index')
    ex.write_ref(r, Seq(s.elems[:i] + s.elems[i + 1:n], n - 1, s.ety))
    return s.elems[i]


@intrinsic('Iterator::for_each')
def it_for_each(ex, args):
    it, f = args
    while True:
        item, it = iter_next(ex, it)
        p = opt_is_some(ex, item)
        if p is None:
            return UNIT
        ex.call_value(f, [p[0]])


@intrinsic('Fn::call', 'FnMut::call_mut', 'FnOnce::call_once')
def fn_call(ex, args):
    """explicit closure / fn-item call: (callee, (args...)) -- the argument tuple is a Python tuple"""
    f = args[0]
    a = ex.deref(args[1]) if len(args) > 1 else ()
    if not isinstance(a, tuple):
        a = (a,)
    return ex.call_value(f, list(a))


@intrinsic('Extend::extend')
def extend_model(ex, args):
    """Vec / VecDeque ::extend with an Option (zero or one element) or a sequence"""
    r, it = args
    it = ex.deref(it)
    if isinstance(it, Choice):
        it = ex.concretize(it)
    s = ex.read_ref(r)
    if isinstance(it, Enum):
        d = concrete_int(it.disc)
        if d is None:
            d = ex.choose([bv(it.disc, 64) == 0, bv(it.disc, 64) == 1])
        if d == 0:
            return UNIT
        v = it.payload(1)[0]
        ex.write_ref(r, seq_append(ex, s, Seq((v,), 1, s.ety)))
        return UNIT
    if isinstance(it, Seq):
        ex.write_ref(r, seq_append(ex, s, it))
        return UNIT
    raise Unsupported('extend with %r' % type(it))

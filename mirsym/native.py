"""Client of the native helper (/verif/native): the real compiled library, used for replay of counterexamples,
differential validation of intrinsics and concrete tables."""
import json
import os
import struct
import subprocess

NATIVE_DIR = os.path.join(os.path.dirname(os.path.dirname(os.path.abspath(__file__))), 'native')


def hx(s):
    if isinstance(s, str):
        s = s.encode('utf-8')
    return s.hex()


def f64_bits(x):
    if isinstance(x, int) and not isinstance(x, bool) and x > 0xFFFFFFFF:
        return '%016x' % x
    return '%016x' % struct.unpack('<Q', struct.pack('<d', float(x)))[0]


def bits_f64(h):
    return struct.unpack('<d', struct.pack('<Q', int(h, 16)))[0]


_built = {}
REPO = os.environ.get('VERIF_REPO', '/repo')


def _crate_dir():
    """the helper crate; for an alternative repository (VERIF_REPO, used to evaluate seeded changes on a copy) a scratch
    copy of the crate with its path dependency rewritten"""
    if REPO == '/repo':
        return NATIVE_DIR
    import hashlib
    import shutil
    d = os.path.join(os.environ.get('VERIF_SCRATCH', '/tmp'), 't2n-native-' + hashlib.sha256(REPO.encode()).hexdigest()[:10])
    if not os.path.exists(os.path.join(d, 'Cargo.toml')):
        os.makedirs(os.path.join(d, 'src'), exist_ok=True)
        toml = open(os.path.join(NATIVE_DIR, 'Cargo.toml')).read().replace('path = "/repo"', 'path = "%s"' % REPO)
        open(os.path.join(d, 'Cargo.toml'), 'w').write(toml)
        if os.path.exists(os.path.join(NATIVE_DIR, 'Cargo.lock')):
            shutil.copy(os.path.join(NATIVE_DIR, 'Cargo.lock'), d)
    shutil.copy(os.path.join(NATIVE_DIR, 'src', 'main.rs'), os.path.join(d, 'src', 'main.rs'))
    return d


def build(profile='dev'):
    if profile in _built:
        return _built[profile]
    crate = _crate_dir()
    env = dict(os.environ)
    env['CARGO_NET_OFFLINE'] = 'true'
    env['RUSTFLAGS'] = '--cfg text2num_verif'
    cmd = ['cargo', 'build', '--offline', '--quiet']
    if profile == 'release':
        cmd.append('--release')
    r = subprocess.run(cmd, cwd=crate, env=env, capture_output=True, text=True)
    if r.returncode != 0:
        raise RuntimeError('native helper build failed:\n' + r.stderr[-4000:])
    path = os.path.join(crate, 'target', 'debug' if profile == 'dev' else 'release', 't2n-native')
    _built[profile] = path
    return path


class Native:
    def __init__(self, profile='dev'):
        self.path = build(profile)
        self.profile = profile
        self.proc = None
        self.calls = 0

    def _start(self):
        self.proc = subprocess.Popen([self.path], stdin=subprocess.PIPE, stdout=subprocess.PIPE, text=True,
                                     encoding='utf-8', bufsize=1)

    def call(self, *fields):
        if self.proc is None or self.proc.poll() is not None:
            self._start()
        line = '\t'.join(fields)
        self.proc.stdin.write(line + '\n')
        self.proc.stdin.flush()
        out = self.proc.stdout.readline()
        self.calls += 1
        if not out:
            self.proc = None
            return {'crash': True}
        return json.loads(out)

    def batch(self, requests):
        """many requests in one process run (fast)"""
        inp = '\n'.join('\t'.join(r) for r in requests) + '\n'
        r = subprocess.run([self.path, '--batch'], input=inp, capture_output=True, text=True, encoding='utf-8')
        lines = r.stdout.split('\n')
        self.calls += len(requests)
        out = []
        for i in range(len(requests)):
            if i < len(lines) and lines[i]:
                out.append(json.loads(lines[i]))
            else:
                out.append({'crash': True})
        return out

    def close(self):
        if self.proc is not None:
            try:
                self.proc.stdin.close()
                self.proc.wait(timeout=5)
            except Exception:
                self.proc.kill()
            self.proc = None

    # convenience wrappers ------------------------------------------------------------
    def t2d(self, lang, text, mode='concrete'):
        return self.call('t2d', mode, lang, hx(text))

    def replace(self, lang, text, thr=0.0, mode='concrete'):
        return self.call('replace', mode, lang, f64_bits(thr), hx(text))

    def textfind(self, lang, text, thr=0.0, mode='concrete'):
        return self.call('textfind', mode, lang, f64_bits(thr), hx(text))

    def find(self, lang, tokens, thr=0.0, mode='concrete'):
        """tokens: list of (text, lower or None, sep, nan)"""
        f = ['find', mode, lang, f64_bits(thr)]
        for t in tokens:
            text, lower, sep, nan = t
            f += [hx(text), '-' if lower is None else hx(lower), ('s' if sep else '') + ('n' if nan else '') or '_']
        return self.call(*f)

    def ds(self, ops):
        return self.call('ds', *[hx(o) for o in ops])

"""Value domain of the MIR symbolic executor.  All values are immutable."""
from dataclasses import dataclass
from typing import Any
import z3


class Unsupported(Exception):
    """The executor met something it does not implement -> check exits 2 (inconclusive)."""


# ------------------------------------------------------------------ scalars

def is_sym(x):
    return isinstance(x, z3.ExprRef)


def bv(x, w):
    if isinstance(x, z3.BitVecRef):
        if x.size() == w:
            return x
        if x.size() < w:
            return z3.ZeroExt(w - x.size(), x)
        return z3.Extract(w - 1, 0, x)
    if isinstance(x, bool):
        x = int(x)
    return z3.BitVecVal(x, w)


def width_of_type(ty):
    ty = ty.strip()
    return {'u8': 8, 'u16': 16, 'u32': 32, 'u64': 64, 'usize': 64, 'u128': 128, 'char': 32,
            'i8': 8, 'i16': 16, 'i32': 32, 'i64': 64, 'isize': 64, 'bool': 1}.get(ty)


def zbool(x):
    if isinstance(x, bool):
        return z3.BoolVal(x)
    return x


def simp(x):
    if is_sym(x):
        return z3.simplify(x)
    return x


def _small(x, budget=24):
    """cheap syntactic size test of a z3 term (bounded traversal)"""
    stack = [x]
    n = 0
    while stack:
        e = stack.pop()
        n += 1
        if n > budget:
            return False
        stack.extend(e.children())
    return True


_CB_CACHE = {}


def concrete_bool(x):
    """True/False if x is definitely that, else None."""
    if isinstance(x, bool):
        return x
    if isinstance(x, int):
        return bool(x)
    k = x.get_id()
    hit = _CB_CACHE.get(k)
    if hit is not None and hit[0] is x:
        return hit[1]
    if z3.is_true(x):
        r = True
    elif z3.is_false(x):
        r = False
    elif not _small(x):
        r = None
    else:
        s = z3.simplify(x)
        r = True if z3.is_true(s) else (False if z3.is_false(s) else None)
    if len(_CB_CACHE) > 400000:
        _CB_CACHE.clear()
    _CB_CACHE[k] = (x, r)
    return r


def concrete_int(x):
    if isinstance(x, bool):
        return int(x)
    if isinstance(x, int):
        return x
    if isinstance(x, z3.BitVecNumRef):
        return x.as_long()
    if is_sym(x) and _small(x):
        s = z3.simplify(x)
        if isinstance(s, z3.BitVecNumRef):
            return s.as_long()
    return None


def And(*xs):
    out = []
    for x in xs:
        if x is True:
            continue
        if x is False:
            return False
        out.append(x)
    if not out:
        return True
    if len(out) == 1:
        return out[0]
    return z3.And(*out)


def Or(*xs):
    out = []
    for x in xs:
        if x is False:
            continue
        if x is True:
            return True
        out.append(x)
    if not out:
        return False
    if len(out) == 1:
        return out[0]
    return z3.Or(*out)


def Not(x):
    if isinstance(x, bool):
        return not x
    return z3.Not(x)


def Eq(a, b):
    if not is_sym(a) and not is_sym(b):
        return a == b
    return a == b


# ------------------------------------------------------------------ compound values

@dataclass(frozen=True, eq=False)
class Struct:
    ty: str
    fields: tuple


@dataclass(frozen=True, eq=False)
class Enum:
    ty: str
    disc: Any            # int or BV (width 8)
    payloads: tuple      # tuple of (idx, fields tuple), sorted by idx

    def payload(self, idx):
        for i, f in self.payloads:
            if i == idx:
                return f
        return None

    def with_payload(self, idx, fields):
        d = dict(self.payloads)
        d[idx] = fields
        return Enum(self.ty, self.disc, tuple(sorted(d.items())))


@dataclass(frozen=True, eq=False)
class Seq:
    """Bounded sequence: Vec<T>, [T], VecDeque<T>, arrays.  If len is a Python int, len(elems) == len."""
    elems: tuple
    len: Any
    ety: str = ''

    @property
    def cap(self):
        return len(self.elems)


@dataclass(frozen=True, eq=False)
class SymStr:
    """A str/String whose bytes may be symbolic (digit strings).  Always valid UTF-8 by construction or obligation.
    parts: the pieces it was formatted from (kept until the first merge), so that "int.frac" can be parsed exactly."""
    seq: Seq
    parts: Any = None


@dataclass(frozen=True, eq=False)
class Ref:
    """A &mut reference (shared references are snapshots)."""
    fid: Any
    local: str
    path: tuple = ()


@dataclass(frozen=True, eq=False)
class MutSlice:
    ref: Ref
    start: Any
    len: Any


@dataclass(frozen=True)
class Closure:
    path: str
    captures: tuple = ()


@dataclass(frozen=True)
class FnItem:
    path: str


@dataclass(frozen=True, eq=False)
class Choice:
    """A value that is one of several unmergeable concrete alternatives (strings, iterator shapes)."""
    alts: tuple          # tuple of (cond, value)


@dataclass(frozen=True, eq=False)
class Opaque:
    """An external object modelled by the harness / intrinsics."""
    kind: str
    data: Any = None


UNIT = ()


class Uninit:
    def __repr__(self):
        return 'UNINIT'


UNINIT = Uninit()


# ------------------------------------------------------------------ merging

def ite(c, a, b, w=None):
    """Value-level if-then-else; c is a z3 Bool or Python bool.  w: bit width for concrete ints if known."""
    if c is True:
        return a
    if c is False:
        return b
    if a is b:
        return a
    if isinstance(a, Uninit):
        return b
    if isinstance(b, Uninit):
        return a
    ta, tb = type(a), type(b)
    if is_sym(a) or is_sym(b) or isinstance(a, (bool, int, float)) and isinstance(b, (bool, int, float)):
        if not is_sym(a) and not is_sym(b):
            if a == b and ta == tb:
                return a
        if is_sym(a) and is_sym(b) and a.eq(b):
            return a
        return _ite_scalar(c, a, b, w)
    if isinstance(a, str) and isinstance(b, str):
        if a == b:
            return a
        if a[:1].isdigit() and b[:1].isdigit():
            # digit strings (occurrence texts) are merged byte-wise, words stay alternatives
            return SymStr(seq_ite(c, seq_from_bytes(a.encode('utf-8')), seq_from_bytes(b.encode('utf-8'))))
        return Choice(((c, a), (True, b)))
    if isinstance(a, Choice) or isinstance(b, Choice):
        return _ite_choice(c, a, b)
    if isinstance(a, str) and isinstance(b, SymStr):
        a = SymStr(seq_from_bytes(a.encode('utf-8')))
    if isinstance(b, str) and isinstance(a, SymStr):
        b = SymStr(seq_from_bytes(b.encode('utf-8')))
        ta = tb = SymStr
    if type(a) != type(b):
        return Choice(((c, a), (True, b)))
    if isinstance(a, tuple):
        if len(a) != len(b):
            raise Unsupported('ite of tuples of different length')
        return tuple(ite(c, x, y) for x, y in zip(a, b))
    if isinstance(a, Struct):
        if a.ty != b.ty or len(a.fields) != len(b.fields):
            return Choice(((c, a), (True, b)))
        return Struct(a.ty, tuple(ite(c, x, y) for x, y in zip(a.fields, b.fields)))
    if isinstance(a, Enum):
        if a.ty != b.ty:
            return Choice(((c, a), (True, b)))
        disc = ite(c, a.disc, b.disc)
        da, db = dict(a.payloads), dict(b.payloads)
        out = {}
        for k in set(da) | set(db):
            if k in da and k in db:
                out[k] = tuple(ite(c, x, y) for x, y in zip(da[k], db[k]))
            else:
                out[k] = da.get(k, db.get(k))
        return Enum(a.ty, disc, tuple(sorted(out.items())))
    if isinstance(a, Seq):
        return seq_ite(c, a, b)
    if isinstance(a, SymStr):
        return SymStr(seq_ite(c, a.seq, b.seq))
    if isinstance(a, (Ref, Closure, FnItem)):
        if _same(a, b):
            return a
        return Choice(((c, a), (True, b)))
    if isinstance(a, MutSlice):
        if not _same(a.ref, b.ref):
            raise Unsupported('ite of mutable slices into different owners')
        return MutSlice(a.ref, ite(c, a.start, b.start), ite(c, a.len, b.len))
    if hasattr(a, 'merge_with'):
        r = a.merge_with(c, b)
        if r is not None:
            return r
        return Choice(((c, a), (True, b)))
    if a == b:
        return a
    return Choice(((c, a), (True, b)))


def _ite_scalar(c, a, b, w=None):
    if isinstance(a, float) or isinstance(b, float) or isinstance(a, z3.FPRef) or isinstance(b, z3.FPRef):
        fa = a if isinstance(a, z3.FPRef) else z3.FPVal(a, z3.Float64())
        fb = b if isinstance(b, z3.FPRef) else z3.FPVal(b, z3.Float64())
        return z3.If(c, fa, fb)
    if isinstance(a, bool) or isinstance(b, bool) or isinstance(a, z3.BoolRef) or isinstance(b, z3.BoolRef):
        return z3.If(c, zbool(a), zbool(b))
    if is_sym(a) and not is_sym(b):
        if w and a.size() != w:
            a = bv(a, w)
        return z3.If(c, a, z3.BitVecVal(b, a.size()))
    if is_sym(b) and not is_sym(a):
        if w and b.size() != w:
            b = bv(b, w)
        return z3.If(c, z3.BitVecVal(a, b.size()), b)
    if is_sym(a) and is_sym(b):
        if isinstance(a, z3.BitVecRef) and isinstance(b, z3.BitVecRef) and a.size() != b.size():
            n = w or max(a.size(), b.size())
            a, b = bv(a, n), bv(b, n)
        return z3.If(c, a, b)
    # two distinct Python ints: width unknown here -> 64 (usize/u64 are the only merged ints; u8/char are
    # widened consistently by bv() at their use sites)
    return z3.If(c, z3.BitVecVal(a, w or 64), z3.BitVecVal(b, w or 64))


def _ite_choice(c, a, b):
    aa = a.alts if isinstance(a, Choice) else ((True, a),)
    bb = b.alts if isinstance(b, Choice) else ((True, b),)
    # alternatives inside a (resp. b) are "first match" lists; make them exclusive and guard them
    return Choice(tuple(_exclusive(aa, c) + _exclusive(bb, Not(c))))


def _exclusive(alts, guard):
    out = []
    seen = False
    for cond, v in alts:
        eff = And(guard, cond, Not(seen)) if seen is not False else And(guard, cond)
        out.append((eff, v))
        seen = Or(seen, cond)
    return out


def seq_from_bytes(b: bytes, cap=None):
    el = tuple(b)
    return Seq(el, len(el), 'u8')


def seq_widen(s: Seq, cap: int, fill=0):
    if s.cap >= cap:
        return s
    return Seq(s.elems + (fill,) * (cap - s.cap), s.len, s.ety)


def seq_ite(c, a: Seq, b: Seq):
    if _same(a, b):
        return a
    w = width_of_type(a.ety or b.ety or '')
    if not is_sym(a.len) and not is_sym(b.len) and a.len == b.len:
        return Seq(tuple(ite(c, x, y, w) for x, y in zip(a.elems, b.elems)), a.len, a.ety or b.ety)
    cap = max(a.cap, b.cap)
    fill = _filler(a, b)
    a2, b2 = seq_widen(a, cap, fill), seq_widen(b, cap, fill)
    elems = []
    for x, y in zip(a2.elems, b2.elems):
        if x is None or isinstance(x, Uninit):
            elems.append(y)
        elif y is None or isinstance(y, Uninit):
            elems.append(x)
        else:
            elems.append(ite(c, x, y, w))
    return Seq(tuple(elems), ite(c, a.len, b.len, 64), a.ety or b.ety)


def _filler(a, b):
    for s in (a, b):
        for e in s.elems:
            if isinstance(e, int) or is_sym(e):
                return 0
            return UNINIT
    return UNINIT


def merge_many(pairs, w=None):
    """pairs: list of (cond, value) with mutually exclusive conds covering the cases of interest.
    Returns the merged value (n-ary, type directed; the last pair is the default of scalar ite chains).
    w: bit width of scalar leaves if known."""
    assert pairs
    # group structurally identical values (hash buckets by fingerprint, confirmed by _same)
    groups = []
    buckets = {}
    for c, v in pairs:
        fp = _fingerprint(v)
        placed = False
        for g in buckets.get(fp, ()):
            if g[1] is v or _same(g[1], v):
                g[0] = Or(g[0], c)
                placed = True
                break
        if not placed:
            g = [c, v]
            groups.append(g)
            buckets.setdefault(fp, []).append(g)
    if len(groups) == 1:
        return groups[0][1]
    vals = [g[1] for g in groups]
    live = [g for g in groups if not isinstance(g[1], Uninit)]
    if not live:
        return UNINIT
    if len(live) == 1:
        return live[0][1]
    groups = live
    vals = [g[1] for g in groups]
    v0 = vals[0]
    if all(isinstance(v, Struct) for v in vals) and all(v.ty == v0.ty and len(v.fields) == len(v0.fields) for v in vals):
        return Struct(v0.ty, tuple(merge_many([(g[0], g[1].fields[i]) for g in groups]) for i in range(len(v0.fields))))
    if all(isinstance(v, tuple) for v in vals) and all(len(v) == len(v0) for v in vals):
        return tuple(merge_many([(g[0], g[1][i]) for g in groups]) for i in range(len(v0)))
    if all(isinstance(v, Enum) for v in vals) and all(v.ty == v0.ty for v in vals):
        disc = merge_many([(g[0], g[1].disc) for g in groups])
        idxs = sorted({i for v in vals for i, _ in v.payloads})
        pl = []
        for i in idxs:
            have = [(g[0], g[1].payload(i)) for g in groups if g[1].payload(i) is not None]
            n = len(have[0][1])
            pl.append((i, tuple(merge_many([(c, p[j]) for c, p in have]) for j in range(n))))
        return Enum(v0.ty, disc, tuple(pl))
    if all(isinstance(v, str) for v in vals):
        if all(v[:1].isdigit() for v in vals):
            return SymStr(_merge_seqs([(g[0], seq_from_bytes(g[1].encode('utf-8'))) for g in groups]))
        return Choice(tuple((g[0], g[1]) for g in groups))
    if all(isinstance(v, (str, SymStr)) for v in vals):
        return SymStr(_merge_seqs([(g[0], g[1].seq if isinstance(g[1], SymStr) else seq_from_bytes(g[1].encode('utf-8')))
                                   for g in groups]))
    if all(isinstance(v, Seq) for v in vals):
        return _merge_seqs([(g[0], g[1]) for g in groups])
    if all(hasattr(v, 'merge_with') for v in vals) and not any(is_sym(v) for v in vals):
        # objects: pairwise merge where possible, otherwise a flat choice
        out = []
        for c, v in groups:
            for o in out:
                m = v.merge_with(c, o[1]) if type(o[1]) is type(v) else None
                if m is not None:
                    o[0], o[1] = Or(o[0], c), m
                    break
            else:
                out.append([c, v])
        if len(out) == 1:
            return out[0][1]
        return Choice(tuple((c, v) for c, v in out))
    res = groups[-1][1]
    for c, v in reversed(groups[:-1]):
        res = ite(c, v, res, w)
    return res


def _fingerprint(v, depth=0):
    if is_sym(v):
        return ('z', v.get_id())
    if isinstance(v, (bool, int, str, float)) or v is None:
        return v
    if depth > 6:
        return type(v).__name__
    if isinstance(v, tuple):
        return tuple(_fingerprint(x, depth + 1) for x in v)
    if isinstance(v, Struct):
        return (v.ty,) + tuple(_fingerprint(x, depth + 1) for x in v.fields)
    if isinstance(v, Enum):
        return (v.ty, _fingerprint(v.disc, depth + 1)) + tuple((i, tuple(_fingerprint(x, depth + 1) for x in f))
                                                               for i, f in v.payloads)
    if isinstance(v, Seq):
        return ('seq', _fingerprint(v.len, depth + 1)) + tuple(_fingerprint(x, depth + 1) for x in v.elems)
    if isinstance(v, SymStr):
        return ('symstr', _fingerprint(v.seq, depth + 1))
    return type(v).__name__


def _merge_seqs(pairs):
    seqs = [s for _, s in pairs]
    ety = next((s.ety for s in seqs if s.ety), '')
    w = width_of_type(ety) if ety else None
    lens = [s.len for s in seqs]
    if all(not is_sym(l) for l in lens) and len(set(lens)) == 1:
        n = lens[0]
        return Seq(tuple(merge_many([(c, s.elems[i]) for c, s in pairs], w) for i in range(n)), n, ety)
    cap = max(s.cap for s in seqs)
    elems = []
    for i in range(cap):
        have = [(c, s.elems[i]) for c, s in pairs if i < s.cap and s.elems[i] is not None]
        elems.append(merge_many(have, w) if have else UNINIT)
    ln = pairs[-1][1].len
    for c, s in reversed(pairs[:-1]):
        ln = ite(c, s.len, ln, 64)
    return Seq(tuple(elems), ln, ety)


def same(a, b):
    return _same(a, b)


def _same(a, b):
    if a is b:
        return True
    if is_sym(a) and is_sym(b):
        return a.eq(b)
    if is_sym(a) or is_sym(b):
        return False
    if type(a) != type(b):
        return False
    if isinstance(a, (Struct,)):
        return a.ty == b.ty and len(a.fields) == len(b.fields) and all(_same(x, y) for x, y in zip(a.fields, b.fields))
    if isinstance(a, Enum):
        return a.ty == b.ty and _same(a.disc, b.disc) and len(a.payloads) == len(b.payloads) and all(
            i == j and _same(f, g) for (i, f), (j, g) in zip(a.payloads, b.payloads))
    if isinstance(a, Seq):
        return _same(a.len, b.len) and len(a.elems) == len(b.elems) and all(_same(x, y) for x, y in zip(a.elems, b.elems))
    if isinstance(a, SymStr):
        return _same(a.seq, b.seq)
    if isinstance(a, Ref):
        return a.fid == b.fid and a.local == b.local and _same(a.path, b.path)
    if isinstance(a, MutSlice):
        return _same(a.ref, b.ref) and _same(a.start, b.start) and _same(a.len, b.len)
    if isinstance(a, Opaque):
        return a.kind == b.kind and _same(a.data, b.data)
    if isinstance(a, tuple):
        return len(a) == len(b) and all(_same(x, y) for x, y in zip(a, b))
    if isinstance(a, Choice):
        return len(a.alts) == len(b.alts) and all(_same(x[0], y[0]) and _same(x[1], y[1]) for x, y in zip(a.alts, b.alts))
    if hasattr(a, 'same_as'):
        return a.same_as(b)
    try:
        return a == b
    except Exception:
        return False

#!/usr/bin/env python3
"""helper: (re)generate MANIFEST.json from the table below"""
import json, sys
CHECKS = {
 'C12': dict(text='Bounded, solver-decided: every public DigitString method is executed symbolically from its MIR on an arbitrary valid builder state (symbolic length <= 8 quick / 14 thorough, symbolic digits, zero counter, frozen bit, flags, marker) and z3 shows result and post-state equal the documented semantics, no panic condition is satisfiable and the digit invariant is re-established (one inductive step, so operation sequences of any length within the length bound are covered).',
             note='Trusted: rustc MIR printer, the mirsym executor and its models of Vec<u8>/slice/iterator functions (listed in evidence trusted_base), z3, the reference semantics in checks/c12.py. Bounds: buffer <= 8/14 digits, arguments 1..3/4 digits, shift 0..12.',
             tech='symbolic execution of MIR + SMT (z3), inductive step from arbitrary valid state, native replay of counterexamples', ref='DESIGN.md section 4 C12'),
 'C01': dict(text='Bounded, solver-decided: the decimal digits of n (n < 10^6 quick, < 10^12 thorough) and the orthographic variant flags are solver variables; the reference speller of each of the seven languages turns them into word slots; text2digits and find_numbers are executed from MIR over the slots and z3 decides that the validator returns exactly decimal(n) and the scanner exactly one occurrence (text, value, span, not ordinal), bare and inside sentence contexts.',
             note='Trusted: MIR printer, mirsym executor + intrinsics, z3, the reference spellers in oracle/langs.py (standard orthography + listed variants; forms left out are listed in evidence outside_bounds). The de "eine Million" rejection is a listed known finding.',
             tech='symbolic execution of MIR over solver-chosen spellings + SMT (z3); native replay', ref='DESIGN.md section 4 C01'),
 'C16': dict(text='Bounded, solver-decided: k zero words (k symbolic, <= 3 quick / 6 thorough) followed by the reference spelling of n (digits symbolic) give the single numeral 0^k n in validator and scanner; spell(n) followed by a zero gives the numerals n and 0; the lone zero validates to 0.',
             note='Trusted: as C01. Quick tier restricts the non-zero digits of n to pairs of three-digit groups (units+thousands, units+millions, millions+billions); thorough n < 10^9.',
             tech='symbolic execution of MIR over solver-chosen spellings + SMT (z3); native replay', ref='DESIGN.md section 4 C16'),
}
def main():
    m = json.load(open('MANIFEST.json'))
    props = [json.loads(l)['id'] for l in open('properties.jsonl')]
    old_na = {x['property_id']: x['reason'] for x in m.get('not_applicable', [])}
    m['checks'] = []
    for pid in props:
        if pid in CHECKS:
            c = CHECKS[pid]
            m['checks'].append({'property_id': pid, 'quick_cmd': './check %s --tier quick' % pid,
                                'thorough_cmd': './check %s --tier thorough' % pid, 'evidence_file': 'evidence/%s.json' % pid,
                                'engine': 'mirsym', 'replay_cmd_template': 'cat {path}',
                                'level_claimed': {'category': 'model_checking', 'text': c['text'], 'design_ref': c['ref']},
                                'level_note': c['note'], 'technique': c['tech']})
    m['not_applicable'] = [{'property_id': p, 'reason': old_na.get(p, 'check not built yet (in progress)')} for p in props if p not in CHECKS]
    m['engines'][0]['serves_properties'] = sorted(CHECKS)
    m['hooks']['source_commits'] = ['1e8656f']
    json.dump(m, open('MANIFEST.json', 'w'), indent=1)
    import jsonschema
    jsonschema.validate(m, json.load(open('/root/.vp/MANIFEST.schema.json')))
    print('manifest ok:', sorted(CHECKS))
main()

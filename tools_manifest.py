#!/usr/bin/env python3
"""helper: (re)generate MANIFEST.json from the table below"""
import json, sys
COMMON_NOTE = ('Trusted: rustc MIR printer, the mirsym executor and its models of std/daachorse/phf functions (listed in evidence '
               'trusted_base, validated against the repository\'s own 677 test triples and by native replay of every counterexample), z3. ')
T = 'symbolic execution of the crate\'s MIR (regenerated from /repo each run) + SMT (z3); counterexamples replayed on the compiled crate'
CHECKS = {
 'C01': dict(text='Bounded, solver-decided: the decimal digits of n and the orthographic variant flags are solver variables; the reference speller of each of the seven languages turns them into word slots; text2digits and find_numbers are executed from MIR over the slots and z3 decides that the validator returns exactly decimal(n) and the scanner exactly one occurrence (text, value, span, not ordinal), bare and inside sentence contexts. Quick: n < 10^6 plus a sparse domain reaching the million/billion words; thorough: n < 10^12.',
             note=COMMON_NOTE + 'Reference spellers in oracle/langs.py (standard orthography + listed variants; forms left out are listed in evidence outside_bounds). The de "eine Million" rejection is a listed known finding.', ref='DESIGN.md 4 C01'),
 'C02': dict(text='Bounded, solver-decided: (a) the tokenizer on n <= 4/6 symbolic characters with uninterpreted classification and UTF-8 width yields maximal word/separator runs that partition the text on character boundaries and never panics; (b) replace_numbers_in_stream with a recording replacement constructor keeps or hands over every token exactly once in order and constructs exactly the occurrences find_numbers reports (streams of 3 words); (c) texts without number words are returned identical part by part.',
             note=COMMON_NOTE + 'Uninterpreted is_alphanumeric/len_utf8 (fixed on ASCII only).', ref='DESIGN.md 4 C02'),
 'C03': dict(text='Bounded, solver-decided: every panic site reached (MIR asserts, unwrap, slice/str indexing, drain/insert ranges, copy/swap length checks) is an obligation; decided here for text2digits on degenerate phrases of 0..2 tokens (empty, hyphen-only, apostrophes, digits, non-Latin) and for find_numbers / the lazy iterator on such streams at NaN, +-inf, -0.0, subnormal, MAX and negative thresholds; all other checks additionally fail on any satisfiable panic within their own input spaces.',
             note=COMMON_NOTE + 'Very long inputs, allocation failure and stack depth are outside.', ref='DESIGN.md 4 C03'),
 'C04': dict(text='Bounded, solver-decided: digits of the rank and the inflection are solver variables; the reference ordinal speller produces word slots; validator and scanner (threshold 0) are executed from MIR and z3 decides that the result is decimal(n) + the marker of the inflection, flagged ordinal, value n, one occurrence. Quick: en < 10^4, es/pt <= 1999, others < 1000; thorough: < 10^6 (es/pt <= 1999).',
             note=COMMON_NOTE + 'Reference ordinal spellers in oracle/ordinals.py; es lone "segundo(s)" and it "secondi" are listed known findings (deliberate time-unit ambiguity).', ref='DESIGN.md 4 C04'),
 'C05': dict(text='Bounded, solver-decided: digits of the integer part (< 1000 quick / < 10^6), the fractional digits (dictated in en/de; leading zeros + a number, or zeros alone, elsewhere) and the variant flags are solver variables; the scanner is executed from MIR on "int sep frac" and z3 decides one occurrence with text int<mark>frac (every digit kept) and that value; a separator with no number before it or nothing after it stays a word.',
             note=COMMON_NOTE + 'Reference spellers as C01.', ref='DESIGN.md 4 C05'),
 'C06': dict(text='Bounded model checking: find_numbers executed from MIR over all streams of 3 words (each a solver-chosen behaviour class of the language alphabet, separators solver-chosen) at thresholds 0 and 10; z3 decides that every occurrence has an in-range span on word tokens, spans are increasing and disjoint, the text is a numeral of the language, the value is the reading of exactly those digits and is_ordinal <=> marker.',
             note=COMMON_NOTE + 'Quick tier uses the core words of each language (one per behaviour class), thorough every behaviour class of the regenerated alphabet.', ref='DESIGN.md 4 C06'),
 'C07': dict(text='Bounded model checking: for every phrase of 3 solver-chosen words the scanner (threshold 0) and the validator (whole phrase and every sub-span) are executed from MIR on the same symbolic words; z3 decides that each non-decimal occurrence validates to its own text, an accepted phrase is exactly one occurrence with the same digits, and no word that validates on its own is left outside every occurrence.',
             note=COMMON_NOTE + 'Alphabet as C06.', ref='DESIGN.md 4 C07'),
 'C08': dict(text='Bounded, solver-decided: (a,b) in [0,99]^2, joiner (space or conjunction) and variants are solver variables; the scanner is executed from MIR on spell(a) joiner spell(b); z3 decides that the outcome is the two numbers in order or the single number whose standard spelling consists of exactly those words (table from the reference speller), with the zero rules; dictation of up to 5/8 digits gives exactly the stated grouping.',
             note=COMMON_NOTE + 'Fusion table computed from the reference speller only. Quick: both numbers in the same spelling variant, standard French tens. The greedy reading of a space-separated "quatre vingt ..." after another number is a listed known finding.', ref='DESIGN.md 4 C08'),
 'C09': dict(text='Bounded model checking: find_numbers executed from MIR over streams of 3 solver-chosen words at threshold 0 and at each of the listed thresholds (10, 3, NaN, -1; thorough more); z3 decides that occurrences at the threshold are a sub-sequence of those at 0 and that a number is kept exactly when it is not small or has a same-kind neighbour with only ignorable tokens between (policy oracle from the statement).',
             note=COMMON_NOTE + 'Linking words = those for which is_linking answers true, and the language\'s conjunction. The decimal separator word between two numbers not isolating them is a listed known finding.', ref='DESIGN.md 4 C09'),
 'C10': dict(text='Bounded, solver-decided at text level: texts A, B of solver-chosen words and "A lorem ipsum dolor. B" go through tokenize/basic_annotate/find_numbers from MIR; z3 decides that the occurrences of the joined text are those of A followed by those of B shifted.',
             note=COMMON_NOTE + 'Tokenizer abstracted on part-structured texts (justified by C02a). French uses a reduced alphabet around the ambiguity rule.', ref='DESIGN.md 4 C10'),
 'C11': dict(text='Bounded model checking: the same solver-chosen stream of 3 words is scanned from MIR all lowercase and with a solver-chosen recasing per word; z3 decides identical occurrences at the threshold and identical text2digits results.',
             note=COMMON_NOTE + 'Recasings: lower, UPPER, Capitalised (thorough: also alternating); only reversible ones; one number word with a non-ASCII letter per language is always in the alphabet.', ref='DESIGN.md 4 C11'),
 'C12': dict(text='Bounded, solver-decided: every public DigitString method is executed symbolically from its MIR on an arbitrary valid builder state (symbolic length <= 8 quick / 14 thorough, symbolic digits, zero counter, frozen bit, flags, marker) and z3 shows result and post-state equal the documented semantics, no panic condition is satisfiable and the digit invariant is re-established (one inductive step, so operation sequences of any length within the length bound are covered).',
             note=COMMON_NOTE + 'Reference semantics in checks/c12.py. Bounds: buffer <= 8/14 digits, arguments 1..3/4 digits, shift 0..12. Thorough tier adds an independent Kani/CBMC cross-check (136 harnesses in /verif/kani on the compiled crate).', ref='DESIGN.md 4 C12'),
 'C13': dict(text='Solver-decided without input bounds: each LangInterpreter method of Language is executed from MIR for each variant with opaque arguments and the inner interpreter uninterpreted: exactly one forwarded call to the same method of the variant\'s own type with identical arguments and unchanged result; get_interpreter_for is executed on an opaque string with free, pairwise exclusive equality Booleans: Some(L) exactly for the ISO code of each built-in language, None otherwise.',
             note=COMMON_NOTE + 'End-to-end equality follows because generic code reaches an interpreter only through the eight trait methods. A facade method that is not a single forwarded call is compared with the concrete method by a solver-decided differential on arbitrary builder states (<= 8 digits).', ref='DESIGN.md 4 C13'),
 'C14': dict(text='Solver-decided reachability of every std print call site in the MIR from text2digits/find_numbers over two-word phrases drawn from the whole vocabulary of each language (native replay with captured stdout/stderr); scan of all MIR types/callees for interior mutability, mutable statics and thread-locals plus a two-call query per language; Send+Sync by the compiler. The quantifier over thread interleavings is NOT explored.',
             note=COMMON_NOTE + 'No engine of this family explores schedules of Rust code; stated in evidence and DESIGN.md section 6.', ref='DESIGN.md 4 C14, 6'),
 'C15': dict(text='Bounded model checking: streams of 2 (quick) / 3 words with solver-chosen words, separators and free hint flags on every token; find_numbers and the FindNumbers iterator (driven by a small harness written in MIR syntax that calls the real next until None) are executed from MIR; z3 decides lazy == batch item by item, nothing read before the first request and never beyond the second recognised number after the returned one, no not-a-number-part token inside an occurrence, no separated token sharing an occurrence with its predecessor.',
             note=COMMON_NOTE + 'The separation hint on a whitespace/hyphen token being ignored is a listed known finding.', ref='DESIGN.md 4 C15'),
 'C16': dict(text='Bounded, solver-decided: k zero words (k symbolic, <= 3 quick / 6 thorough) followed by the reference spelling of n give the single numeral 0^k n in validator and scanner; spell(n) followed by a zero gives the numerals n and 0; the lone zero validates to 0. Quick: sparse domain reaching every scale word; thorough n < 10^9.',
             note=COMMON_NOTE + 'Reference spellers as C01; de "eine Million" is a listed known finding.', ref='DESIGN.md 4 C16'),
 'C17': dict(text='Bounded, solver-decided at text level: texts of 2 (quick) / 3 solver-chosen words separated by solver-chosen whitespace runs (any of the 25 White_Space characters and some two-character runs), with and without leading/trailing whitespace, compared with the single-space text: occurrences and validation result equal.',
             note=COMMON_NOTE + 'Tokenizer abstracted on part-structured texts (justified by C02a).', ref='DESIGN.md 4 C17'),
 'C18': dict(text='Bounded, solver-decided at text level: English texts of three solver-chosen words with "o" at each position and solver-chosen separators are run three times from MIR (as is, "o" replaced by "zero", by an ordinary word); z3 decides that the first equals the second when the nearest non-whitespace neighbour is a number word and the third otherwise.',
             note=COMMON_NOTE + 'Number word = a word text2digits accepts on its own.', ref='DESIGN.md 4 C18'),
}
for _k in CHECKS:
    CHECKS[_k].setdefault('tech', T)
NOTES = ('All checks belong to one technique family: symbolic execution of the real code (rustc MIR regenerated from /repo on every run, executed by /verif/mirsym) with z3 deciding every obligation within stated bounds; counterexamples are replayed on the natively compiled crate before a VIOLATION line is printed; exit 2 = inconclusive (never a pass). '
         'DESIGN.md section 11 describes the suite as built: fixes made in /repo, known findings (known_findings.json), false alarms corrected, bounds per tier, seeded changes and which check catches them. '
         'C14: the quantifier over thread interleavings is not addressable by this family (DESIGN.md 6, 11.8); the check decides the sequential premise only. '
         'Thorough commands use deeper bounds only for the properties listed in THOROUGH.txt (DESIGN.md 11.9).')
VERIFIED = set((open('VERIFIED.txt').read().split() if __import__('os').path.exists('VERIFIED.txt') else []))
def main():
    m = json.load(open('MANIFEST.json'))
    props = [json.loads(l)['id'] for l in open('properties.jsonl')]
    old_na = {x['property_id']: x['reason'] for x in m.get('not_applicable', [])}
    m['checks'] = []
    for pid in props:
        if pid in CHECKS and pid in VERIFIED:
            c = CHECKS[pid]
            m['checks'].append({'property_id': pid, 'quick_cmd': './check %s --tier quick' % pid,
                                'thorough_cmd': './check %s --tier thorough' % pid, 'evidence_file': 'evidence/%s.json' % pid,
                                'engine': 'mirsym', 'replay_cmd_template': 'cat {path}',
                                'level_claimed': {'category': 'model_checking', 'text': c['text'], 'design_ref': c['ref']},
                                'level_note': c['note'], 'technique': c['tech']})
    m['not_applicable'] = [{'property_id': p, 'reason': 'check built (checks/%s.py) but not yet passing cleanly on the unchanged tree within the time budget; not claimed' % p.lower()} for p in props if not (p in CHECKS and p in VERIFIED)]
    m['engines'][0]['serves_properties'] = sorted(VERIFIED)
    m['hooks']['source_commits'] = ['1e8656f']
    m['engines'] = [e for e in m['engines'] if e['name'] == 'mirsym'] + [{'name': 'kani-crosscheck', 'path': 'kani/', 'serves_properties': ['C12'] if 'C12' in VERIFIED else [], 'kind_free_text': 'Kani 0.68 / CBMC 6.11 harness crate with a path dependency on /repo: independent re-decision of the DigitString obligations O1-O3, O5 on the compiled crate (thorough tier of C12, or VERIF_KANI=1)'}]
    m['notes'] = NOTES
    json.dump(m, open('MANIFEST.json', 'w'), indent=1)
    import jsonschema
    jsonschema.validate(m, json.load(open('/root/.vp/MANIFEST.schema.json')))
    print('manifest ok:', sorted(VERIFIED))
main()

//! JSON-lines server around the real compiled text2num library.
//! Request: one line, fields separated by TAB, every field hex-encoded UTF-8 (so any text is safe).
//! Response: one line of JSON.
use std::cell::Cell;
use std::io::{self, BufRead, Read, Write};
use std::panic::{catch_unwind, AssertUnwindSafe};
use std::rc::Rc;

use text2num::digit_string::DigitString;
use text2num::lang::{
    Dutch, English, French, German, Italian, LangInterpreter, MorphologicalMarker,
    Portuguese, Spanish,
};
use text2num::verif_hooks::{tokenize, BasicToken};
use text2num::{
    find_numbers, find_numbers_iter, get_interpreter_for, replace_numbers_in_stream,
    replace_numbers_in_text, text2digits, Language, Occurence, Replace, Token,
};

extern "C" {
    fn dup(fd: i32) -> i32;
    fn dup2(a: i32, b: i32) -> i32;
    fn close(fd: i32) -> i32;
    fn pipe(fds: *mut i32) -> i32;
    fn read(fd: i32, buf: *mut u8, n: usize) -> isize;
    fn fcntl(fd: i32, cmd: i32, arg: i32) -> i32;
}

fn unhex(s: &str) -> String {
    let b = s.as_bytes();
    let mut out = Vec::with_capacity(b.len() / 2);
    let v = |c: u8| -> u8 {
        match c {
            b'0'..=b'9' => c - b'0',
            b'a'..=b'f' => c - b'a' + 10,
            b'A'..=b'F' => c - b'A' + 10,
            _ => 0,
        }
    };
    let mut i = 0;
    while i + 1 < b.len() {
        out.push(v(b[i]) * 16 + v(b[i + 1]));
        i += 2;
    }
    String::from_utf8(out).expect("request fields are UTF-8")
}

fn js(s: &str) -> String {
    let mut o = String::with_capacity(s.len() + 2);
    o.push('"');
    for c in s.chars() {
        match c {
            '"' => o.push_str("\\\""),
            '\\' => o.push_str("\\\\"),
            '\n' => o.push_str("\\n"),
            '\r' => o.push_str("\\r"),
            '\t' => o.push_str("\\t"),
            c if (c as u32) < 0x20 => o.push_str(&format!("\\u{:04x}", c as u32)),
            c => o.push(c),
        }
    }
    o.push('"');
    o
}

fn jf(v: f64) -> String {
    // f64 as its IEEE bits (exact) plus a readable rendering
    format!("{{\"bits\":\"{:016x}\",\"repr\":{}}}", v.to_bits(), js(&format!("{:?}", v)))
}

fn lang_of(code: &str, facade: bool) -> Language {
    // concrete interpreters are wrapped in the facade enum only to have one type here; `facade` tells how they
    // were obtained so C13 can compare the two ways (constructor fns vs. get_interpreter_for).
    let _ = facade;
    match code {
        "de" => Language::german(),
        "en" => Language::english(),
        "es" => Language::spanish(),
        "fr" => Language::french(),
        "it" => Language::italian(),
        "nl" => Language::dutch(),
        "pt" => Language::portuguese(),
        _ => panic!("unknown language {}", code),
    }
}

/// run `f` with a concrete interpreter type (not through the facade)
macro_rules! with_concrete {
    ($code:expr, $l:ident, $body:expr) => {
        match $code {
            "de" => { let $l = German::new(); $body }
            "en" => { let $l = English::new(); $body }
            "es" => { let $l = Spanish::new(); $body }
            "fr" => { let $l = French::new(); $body }
            "it" => { let $l = Italian::new(); $body }
            "nl" => { let $l = Dutch::new(); $body }
            "pt" => { let $l = Portuguese::new(); $body }
            _ => panic!("unknown language"),
        }
    };
}

fn err_name(e: &text2num::error::Error) -> &'static str {
    match e {
        text2num::error::Error::Overlap => "Overlap",
        text2num::error::Error::NaN => "NaN",
        text2num::error::Error::Incomplete => "Incomplete",
        text2num::error::Error::Frozen => "Frozen",
    }
}

fn panic_msg(p: Box<dyn std::any::Any + Send>) -> String {
    if let Some(s) = p.downcast_ref::<&str>() {
        s.to_string()
    } else if let Some(s) = p.downcast_ref::<String>() {
        s.clone()
    } else {
        "panic".to_string()
    }
}

// ---------------------------------------------------------------- tokens with explicit hints

#[derive(Clone, Debug)]
struct VTok {
    id: usize,
    text: String,
    lower: String,
    sep: bool,
    nan: bool,
    replaced: Vec<usize>,
    made: bool,
}

impl Token for VTok {
    fn text(&self) -> &str { &self.text }
    fn text_lowercase(&self) -> &str { &self.lower }
    fn nt_separated(&self, _previous: &Self) -> bool { self.sep }
    fn not_a_number_part(&self) -> bool { self.nan }
}

impl Token for &VTok {
    fn text(&self) -> &str { &self.text }
    fn text_lowercase(&self) -> &str { &self.lower }
    fn nt_separated(&self, _previous: &Self) -> bool { self.sep }
    fn not_a_number_part(&self) -> bool { self.nan }
}

impl Replace for VTok {
    fn replace<I: Iterator<Item = Self>>(replaced: I, data: String) -> Self {
        let mut ids = Vec::new();
        for t in replaced {
            ids.push(t.id);
        }
        VTok { id: usize::MAX, lower: data.to_lowercase(), text: data, sep: false, nan: false, replaced: ids, made: true }
    }
}

struct Counting<I> {
    inner: I,
    taken: Rc<Cell<usize>>,
}

impl<I: Iterator> Iterator for Counting<I> {
    type Item = I::Item;
    fn next(&mut self) -> Option<I::Item> {
        let r = self.inner.next();
        if r.is_some() {
            self.taken.set(self.taken.get() + 1);
        }
        r
    }
}

fn parse_tokens(fields: &[&str]) -> Vec<VTok> {
    // each token: text, lower ("-" hex-decoded empty marker means: use to_lowercase), flags "sn"
    let mut out = Vec::new();
    for ch in fields.chunks(3) {
        if ch.len() < 3 {
            break;
        }
        let text = unhex(ch[0]);
        let lower = if ch[1] == "-" { text.to_lowercase() } else { unhex(ch[1]) };
        let flags = ch[2];
        out.push(VTok { id: out.len(), text, lower, sep: flags.contains('s'), nan: flags.contains('n'), replaced: vec![], made: false });
    }
    out
}

fn occ_json(o: &Occurence) -> String {
    format!(
        "{{\"start\":{},\"end\":{},\"text\":{},\"value\":{},\"is_ordinal\":{}}}",
        o.start, o.end, js(&o.text), jf(o.value), o.is_ordinal
    )
}

fn occs_json(v: &[Occurence]) -> String {
    let parts: Vec<String> = v.iter().map(occ_json).collect();
    format!("[{}]", parts.join(","))
}

fn thr(s: &str) -> f64 {
    f64::from_bits(u64::from_str_radix(s, 16).expect("threshold bits"))
}

// ---------------------------------------------------------------- stderr/stdout capture

struct Capture {
    saved: [i32; 2],
    rd: i32,
}

impl Capture {
    fn start() -> Capture {
        unsafe {
            let mut fds = [0i32; 2];
            pipe(fds.as_mut_ptr());
            // non-blocking read end: F_SETFL = 4, O_NONBLOCK = 0x800
            fcntl(fds[0], 4, 0x800);
            let _ = io::stdout().flush();
            let saved = [dup(1), dup(2)];
            dup2(fds[1], 1);
            dup2(fds[1], 2);
            close(fds[1]);
            Capture { saved, rd: fds[0] }
        }
    }
    fn finish(self) -> String {
        unsafe {
            let _ = io::stdout().flush();
            let _ = io::stderr().flush();
            dup2(self.saved[0], 1);
            dup2(self.saved[1], 2);
            close(self.saved[0]);
            close(self.saved[1]);
            let mut out = Vec::new();
            let mut buf = [0u8; 4096];
            loop {
                let n = read(self.rd, buf.as_mut_ptr(), buf.len());
                if n <= 0 { break; }
                out.extend_from_slice(&buf[..n as usize]);
            }
            close(self.rd);
            String::from_utf8_lossy(&out).to_string()
        }
    }
}

// ---------------------------------------------------------------- DigitString scripts

fn ds_state(b: &DigitString) -> String {
    let marker = match &b.marker {
        MorphologicalMarker::Ordinal(s) => format!("{{\"kind\":\"Ordinal\",\"s\":{}}}", js(s)),
        MorphologicalMarker::Fraction(s) => format!("{{\"kind\":\"Fraction\",\"s\":{}}}", js(s)),
        MorphologicalMarker::None => "{\"kind\":\"None\"}".to_string(),
    };
    let raw: Vec<String> = b.iter().map(|c| c.to_string()).collect();
    format!(
        "{{\"to_string\":{},\"len\":{},\"is_empty\":{},\"is_null\":{},\"flags\":{},\"marker\":{},\"is_ordinal\":{},\"buffer\":[{}]}}",
        js(&b.to_string()), b.len(), b.is_empty(), b.is_null(), b.flags, marker, b.is_ordinal(), raw.join(",")
    )
}

fn res_json(r: Result<(), text2num::error::Error>) -> String {
    match r {
        Ok(()) => "\"Ok\"".to_string(),
        Err(e) => format!("\"Err({})\"", err_name(&e)),
    }
}

fn run_ds(fields: &[&str]) -> String {
    // fields: ops "name:arg:arg"; byte args are hex
    let mut b = DigitString::new();
    let mut steps = Vec::new();
    for f in fields {
        let op = unhex(f);
        let parts: Vec<&str> = op.split(':').collect();
        let name = parts[0];
        let bytes = |i: usize| -> Vec<u8> {
            let h = parts[i].as_bytes();
            let mut o = Vec::new();
            let mut k = 0;
            while k + 1 < h.len() {
                o.push(u8::from_str_radix(std::str::from_utf8(&h[k..k + 2]).unwrap(), 16).unwrap());
                k += 2;
            }
            o
        };
        let num = |i: usize| -> usize { parts[i].parse().unwrap() };
        let r = catch_unwind(AssertUnwindSafe(|| -> String {
            match name {
                "put" => res_json(b.put(&bytes(1))),
                "fput" => res_json(b.fput(&bytes(1))),
                "push" => res_json(b.push(&bytes(1))),
                "put_digit_at" => res_json(b.put_digit_at(bytes(1)[0], num(2))),
                "shift" => res_json(b.shift(num(1))),
                "freeze" => { b.freeze(); "\"()\"".to_string() }
                "reset" => { b.reset(); "\"()\"".to_string() }
                "set_flags" => { b.flags = parts[1].parse().unwrap(); "\"()\"".to_string() }
                "set_marker" => {
                    b.marker = match parts[1] {
                        "Ordinal" => MorphologicalMarker::Ordinal("th"),
                        "Fraction" => MorphologicalMarker::Fraction("avos"),
                        _ => MorphologicalMarker::None,
                    };
                    "\"()\"".to_string()
                }
                "peek" => { let v: Vec<String> = b.peek(num(1)).iter().map(|c| c.to_string()).collect(); format!("[{}]", v.join(",")) }
                "is_free" => b.is_free(num(1)).to_string(),
                "is_range_free" => b.is_range_free(num(1), num(2)).to_string(),
                "is_position_free" => b.is_position_free(num(1)).to_string(),
                "state" => "\"()\"".to_string(),
                _ => panic!("unknown ds op {}", name),
            }
        }));
        match r {
            Ok(s) => steps.push(format!("{{\"op\":{},\"result\":{},\"state\":{}}}", js(&op), s, ds_state(&b))),
            Err(p) => {
                steps.push(format!("{{\"op\":{},\"panic\":{}}}", js(&op), js(&panic_msg(p))));
                break;
            }
        }
    }
    format!("{{\"steps\":[{}]}}", steps.join(","))
}

// ---------------------------------------------------------------- dispatch

fn guarded<F: FnOnce() -> String>(f: F) -> String {
    let cap = Capture::start();
    let r = catch_unwind(AssertUnwindSafe(f));
    let out = cap.finish();
    match r {
        Ok(s) => format!("{{\"ok\":{},\"output\":{}}}", s, js(&out)),
        Err(p) => format!("{{\"panic\":{},\"output\":{}}}", js(&panic_msg(p)), js(&out)),
    }
}

fn handle(line: &str) -> String {
    let fields: Vec<&str> = line.split('\t').collect();
    let cmd = fields[0];
    match cmd {
        "ping" => "{\"ok\":\"pong\"}".to_string(),
        "ds" => guarded(|| run_ds(&fields[1..])),
        // t2d <mode:facade|concrete> <lang> <text>
        "t2d" => {
            let mode = fields[1];
            let code = fields[2].to_string();
            let text = unhex(fields[3]);
            guarded(move || {
                let r = if mode == "facade" {
                    text2digits(&text, &lang_of(&code, true))
                } else {
                    with_concrete!(code.as_str(), l, text2digits(&text, &l))
                };
                match r {
                    Ok(s) => format!("{{\"Ok\":{}}}", js(&s)),
                    Err(e) => format!("{{\"Err\":\"{}\"}}", err_name(&e)),
                }
            })
        }
        // replace <mode> <lang> <thr> <text>
        "replace" => {
            let mode = fields[1];
            let code = fields[2].to_string();
            let t = thr(fields[3]);
            let text = unhex(fields[4]);
            guarded(move || {
                let r = if mode == "facade" {
                    replace_numbers_in_text(&text, &lang_of(&code, true), t)
                } else {
                    with_concrete!(code.as_str(), l, replace_numbers_in_text(&text, &l, t))
                };
                js(&r)
            })
        }
        // textfind <mode> <lang> <thr> <text>: tokenize + annotate + find_numbers on the exact tokens
        "textfind" => {
            let mode = fields[1];
            let code = fields[2].to_string();
            let t = thr(fields[3]);
            let text = unhex(fields[4]);
            guarded(move || {
                let mut tokens: Vec<BasicToken> = tokenize(&text).collect();
                let occs = if mode == "facade" {
                    let l = lang_of(&code, true);
                    l.basic_annotate(&mut tokens);
                    find_numbers(tokens.iter(), &l, t)
                } else {
                    with_concrete!(code.as_str(), l, { l.basic_annotate(&mut tokens); find_numbers(tokens.iter(), &l, t) })
                };
                let toks: Vec<String> = tokens.iter().map(|t| format!("{{\"text\":{},\"lower\":{},\"nan\":{}}}", js(&t.text), js(&t.lowercase), t.nan)).collect();
                format!("{{\"tokens\":[{}],\"occs\":{}}}", toks.join(","), occs_json(&occs))
            })
        }
        // find <mode> <lang> <thr> tokens... : batch, lazy (with consumption trace) and stream replacement
        "find" => {
            let mode = fields[1];
            let code = fields[2].to_string();
            let t = thr(fields[3]);
            let toks = parse_tokens(&fields[4..]);
            guarded(move || {
                macro_rules! body {
                    ($l:expr) => {{
                        let batch = find_numbers(toks.clone().into_iter(), $l, t);
                        let taken = Rc::new(Cell::new(0usize));
                        let it = Counting { inner: toks.clone().into_iter(), taken: taken.clone() };
                        let mut lazy = find_numbers_iter(it, $l, t);
                        let before_first = taken.get();
                        let mut lazy_out = Vec::new();
                        let mut consumed = Vec::new();
                        loop {
                            let n = lazy.next();
                            consumed.push(taken.get());
                            match n {
                                Some(o) => lazy_out.push(o),
                                None => break,
                            }
                            if lazy_out.len() > toks.len() + 2 { break; }
                        }
                        let replaced = replace_numbers_in_stream(toks.clone(), $l, t);
                        let rep: Vec<String> = replaced.iter().map(|t| {
                            let ids: Vec<String> = t.replaced.iter().map(|i| i.to_string()).collect();
                            format!("{{\"id\":{},\"text\":{},\"made\":{},\"replaced\":[{}]}}",
                                if t.made { "null".to_string() } else { t.id.to_string() }, js(&t.text), t.made, ids.join(","))
                        }).collect();
                        let cons: Vec<String> = consumed.iter().map(|c| c.to_string()).collect();
                        format!("{{\"batch\":{},\"lazy\":{},\"before_first\":{},\"consumed\":[{}],\"stream\":[{}]}}",
                            occs_json(&batch), occs_json(&lazy_out), before_first, cons.join(","), rep.join(","))
                    }};
                }
                if mode == "facade" {
                    let l = lang_of(&code, true);
                    body!(&l)
                } else {
                    with_concrete!(code.as_str(), l, body!(&l))
                }
            })
        }
        // iso <code>: which language does get_interpreter_for return (identified by behaviour on probe words)
        "iso" => {
            let code = unhex(fields[1]);
            guarded(move || match get_interpreter_for(&code) {
                None => "null".to_string(),
                Some(l) => {
                    let name = match l {
                        Language::English(_) => "en",
                        Language::French(_) => "fr",
                        Language::German(_) => "de",
                        Language::Italian(_) => "it",
                        Language::Spanish(_) => "es",
                        Language::Dutch(_) => "nl",
                        Language::Portuguese(_) => "pt",
                    };
                    js(name)
                }
            })
        }
        // words <mode> <lang> <word>: single-word services (linking, decimal sep, marker)
        "word" => {
            let mode = fields[1];
            let code = fields[2].to_string();
            let w = unhex(fields[3]);
            guarded(move || {
                macro_rules! body {
                    ($l:expr) => {{
                        let m = match $l.get_morph_marker(&w) {
                            MorphologicalMarker::Ordinal(s) => format!("\"Ordinal:{}\"", s),
                            MorphologicalMarker::Fraction(s) => format!("\"Fraction:{}\"", s),
                            MorphologicalMarker::None => "\"None\"".to_string(),
                        };
                        format!("{{\"is_linking\":{},\"is_decimal_sep\":{},\"marker\":{}}}", $l.is_linking(&w), $l.is_decimal_sep(&w), m)
                    }};
                }
                if mode == "facade" { let l = lang_of(&code, true); body!(&l) } else { with_concrete!(code.as_str(), l, body!(&l)) }
            })
        }
        // std oracles
        "lower" => js(&unhex(fields[1]).to_lowercase()),
        "upper" => js(&unhex(fields[1]).to_uppercase()),
        "charclass" => {
            // fields: code points in hex; answer per code point: [alphabetic, alphanumeric, whitespace, ascii_ws, utf8len]
            let mut out = Vec::new();
            for f in &fields[1..] {
                if let Some(c) = char::from_u32(u32::from_str_radix(f, 16).unwrap()) {
                    out.push(format!("[{},{},{},{},{}]", c.is_alphabetic(), c.is_alphanumeric(), c.is_whitespace(), c.is_ascii_whitespace(), c.len_utf8()));
                } else {
                    out.push("null".to_string());
                }
            }
            format!("[{}]", out.join(","))
        }
        "tokenize" => {
            let text = unhex(fields[1]);
            guarded(move || {
                let toks: Vec<String> = tokenize(&text).map(|t| js(&t.text)).collect();
                format!("[{}]", toks.join(","))
            })
        }
        "split_ws" => {
            let text = unhex(fields[1]);
            let toks: Vec<String> = text.split_whitespace().map(js).collect();
            format!("[{}]", toks.join(","))
        }
        "sendsync" => {
            fn assert_send_sync<T: Send + Sync>() {}
            assert_send_sync::<Language>();
            assert_send_sync::<English>();
            assert_send_sync::<French>();
            assert_send_sync::<German>();
            assert_send_sync::<Italian>();
            assert_send_sync::<Spanish>();
            assert_send_sync::<Dutch>();
            assert_send_sync::<Portuguese>();
            "{\"ok\":true}".to_string()
        }
        _ => format!("{{\"error\":\"unknown command {}\"}}", cmd),
    }
}

fn main() {
    std::panic::set_hook(Box::new(|_| {}));
    let stdin = io::stdin();
    let mut input = String::new();
    if std::env::args().any(|a| a == "--batch") {
        stdin.lock().read_to_string(&mut input).unwrap();
        let out = io::stdout();
        for line in input.lines() {
            let r = handle(line);
            let mut o = out.lock();
            writeln!(o, "{}", r).unwrap();
        }
        return;
    }
    for line in stdin.lock().lines() {
        let line = line.unwrap();
        let r = handle(&line);
        let out = io::stdout();
        let mut o = out.lock();
        writeln!(o, "{}", r).unwrap();
        o.flush().unwrap();
    }
}

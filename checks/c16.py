"""C16 Leading zeros are kept; a zero after a number starts a new numeral; a lone zero is 0."""
import z3
from .common import Check, run_parallel, Inconclusive
from .spelled import *
from oracle.langs import LANGS


def zeros_decimal_matches(ret_str, z, zmax, digs):
    """String == '0'^z ++ decimal(n) for symbolic z in [0,zmax]"""
    from mirsym.strings import to_symstr
    if isinstance(ret_str, Choice):
        alts = []
        seen = z3.BoolVal(False)
        for c, v in ret_str.alts:
            cz = z3.BoolVal(c) if isinstance(c, bool) else c
            alts.append(z3.And(cz, z3.Not(seen), zeros_decimal_matches(v, z, zmax, digs)))
            seen = z3.Or(seen, cz)
        return z3.Or(*alts)
    s = to_symstr(ret_str).seq
    L = digs.sig_len()
    total = L + z3.ZeroExt(56, z)
    slen = s.len if is_sym(s.len) else z3.BitVecVal(s.len, 64)
    conds = [slen == total]
    for i in range(s.cap):
        e = bv(s.elems[i], 8) if is_sym(s.elems[i]) else z3.BitVecVal(s.elems[i], 8)
        exp = z3.BitVecVal(48, 8)
        for zv in range(0, zmax + 1):
            if i - zv >= 0:
                exp = z3.If(z == zv, digs.decimal_cell(i - zv, L), exp)
        exp = z3.If(z3.ULT(z3.BitVecVal(i, 8), z), z3.BitVecVal(48, 8), exp)
        conds.append(z3.Implies(z3.ULT(z3.BitVecVal(i, 64), total), e == exp))
    return z3.And(*conds)


MASKS = {'low': (0, 1), 'mil': (0, 2), 'high': (2, 3)}


def worker(ck: Check, job):
    code, dom = job
    mask = dom
    L = LANGS[code]
    quick = ck.tier == 'quick'
    zmax = 3 if quick else 6
    digs = Digits(12)
    f = L.flags()
    assm = digs.domain(dom) + list(L.side_constraints(digs, f))
    assm.append(z3.Not(digs.is_zero()))
    z = z3.BitVec('nzeros', 8)
    assm.append(z3.ULE(z, zmax))
    zero_slots = [[(z3.UGT(z, j), L.zero), (z3.ULE(z, j), None)] for j in range(zmax)]
    card = L.cardinal_slots(digs, f)
    slots = zero_slots + card
    words_of = lambda m: concrete_phrase(slots, m)
    name = '%s:%s' % (code, mask)
    ck.bounds['leading_zero_words_max'] = zmax
    ck.bounds['domain'] = 'quick: n < 10^4, and n with one free digit in each group of three (d*10^9 + c*10^6 + b*10^3 + a); thorough: n < 10^9'

    # ---------------------------------------------------------------- validator
    ex = make_executor(ck, assm)
    res = run_validator(ck, ex, L, slots)
    ck.absorb(ex)
    bad, oks = [], []
    for r in res:
        p = r.ret.payload(0)
        good = z3.And(B64(r.ret.disc) == 0, zeros_decimal_matches(p[0], z, zmax, digs)) if p is not None else z3.BoolVal(False)
        bad.append(('wrong result', z3.And(pc(r), z3.Not(good))))
        oks.append(z3.And(pc(r), good))
    bad += [('panic: %s %s at %s' % (p.kind, p.msg, p.where), c) for p, c in zip(ex.panics, conds_of(ex.panics))]

    def expect(m):
        return '0' * m.eval(z, model_completion=True).as_long() + str(digs.value_of(m))

    def on_cex_v(m, fired=None):
        words = words_of(m)
        text = ' '.join(words)
        nat = ck.native()
        r = nat.t2d(code, text)
        got = r.get('ok', {}).get('Ok') if 'ok' in r else None
        rep = {'lang': code, 'text': text, 'expected': expect(m), 'native': r}
        if got == expect(m):
            return {'key': {}, 'what': '', 'reproduced': False, 'replay': rep}
        cw = culprit_word(nat, code, words, skip=(L.conj,))
        return {'key': {'lang': code, 'word': cw, 'kind': 'validator'}, 'reproduced': True, 'replay': rep, 'culprit': cw,
                'what': '%s: text2digits(%r) gives %s, expected %s' % (code, text, r.get('ok', r), expect(m))}

    def block(m, cex):
        return block_word([slots], cex['culprit']) if cex.get('culprit') else None
    ck.prove_none(name + ':validator', assm, bad, on_cex_v, block)
    ck.cover(name + ':validator:ok', assm + [z3.Or(*oks), z3.UGE(z, 1)] if oks else [False],
             lambda m: {'lang': code, 'text': ' '.join(words_of(m)), 'expected': expect(m)})

    # ---------------------------------------------------------------- scanner: zeros + number -> one numeral
    tslots, nwords, ne = token_slots(slots)
    ex2 = make_executor(ck, assm)
    res2 = run_scanner(ck, ex2, L, tslots, 0.0)
    ck.absorb(ex2)
    bad2, ok2 = [], []
    for r in res2:
        v = r.ret
        good = z3.BoolVal(False)
        if isinstance(v, Seq) and v.cap >= 1:
            o = v.elems[0]
            st, en, text, val, isord = o.fields
            good = z3.And(B64(v.len) == 1, B64(st) == 0, B64(en) == 2 * nwords - 1,
                          zeros_decimal_matches(text, z, zmax, digs), z3.Not(ZB(isord)))
        bad2.append(('wrong result', z3.And(pc(r), z3.Not(good))))
        ok2.append(z3.And(pc(r), good))
    bad2 += [('panic: %s %s at %s' % (p.kind, p.msg, p.where), c) for p, c in zip(ex2.panics, conds_of(ex2.panics))]

    def on_cex_s(m, fired=None):
        toks = concrete_tokens(tslots, m)
        nat = ck.native()
        r = nat.find(code, [tok_tuple(t, m) for t in toks], 0.0)
        rep = {'lang': code, 'tokens': [t.text for t in toks], 'expected': expect(m), 'native': r}
        good = False
        if 'ok' in r:
            occs = [native_occ(o) for o in r['ok']['batch']]
            good = len(occs) == 1 and occs[0]['text'] == expect(m) and occs[0]['start'] == 0 and \
                occs[0]['end'] == len(toks) and not occs[0]['is_ordinal']
        if good:
            return {'key': {}, 'what': '', 'reproduced': False, 'replay': rep}
        cw = culprit_word(nat, code, words_of(m), skip=(L.conj,))
        return {'key': {'lang': code, 'word': cw, 'kind': 'scanner'}, 'reproduced': True, 'replay': rep, 'culprit': cw,
                'what': '%s: scanner on %r gives %s, expected one numeral %s' % (
                    code, ''.join(t.text for t in toks), [o['text'] for o in r.get('ok', {}).get('batch', [])], expect(m))}
    ck.prove_none(name + ':scanner', assm, bad2, on_cex_s, block)
    ck.cover(name + ':scanner:ok', assm + [z3.Or(*ok2), z3.UGE(z, 1)] if ok2 else [False],
             lambda m: {'lang': code, 'tokens': [t.text for t in concrete_tokens(tslots, m)], 'expected': expect(m)})

    # ---------------------------------------------------------------- number followed by a zero -> 'n 0' ; lone zero
    assm3 = [c for c in assm if True] + [z == 0]
    slots3 = card + [[(True, L.zero)]]
    tslots3, nwords3, _ = token_slots(slots3)
    ex3 = make_executor(ck, assm3)
    res3 = run_scanner(ck, ex3, L, tslots3, 0.0)
    ck.absorb(ex3)
    bad3, ok3 = [], []
    for r in res3:
        v = r.ret
        good = z3.BoolVal(False)
        if isinstance(v, Seq) and v.cap >= 2:
            o1, o2 = v.elems[0], v.elems[1]
            good = z3.And(B64(v.len) == 2, decimal_matches(o1.fields[2], digs), B64(o1.fields[0]) == 0,
                          B64(o1.fields[1]) == 2 * nwords3 - 3, B64(o2.fields[0]) == 2 * nwords3 - 2,
                          B64(o2.fields[1]) == 2 * nwords3 - 1, text_is(o2.fields[2], '0'))
        bad3.append(('wrong result', z3.And(pc(r), z3.Not(good))))
        ok3.append(z3.And(pc(r), good))
    bad3 += [('panic: %s %s at %s' % (p.kind, p.msg, p.where), c) for p, c in zip(ex3.panics, conds_of(ex3.panics))]

    def on_cex_3(m, fired=None):
        toks = concrete_tokens(tslots3, m)
        n = digs.value_of(m)
        nat = ck.native()
        r = nat.find(code, [tok_tuple(t, m) for t in toks], 0.0)
        rep = {'lang': code, 'tokens': [t.text for t in toks], 'expected': [str(n), '0'], 'native': r}
        good = 'ok' in r and [o['text'] for o in r['ok']['batch']] == [str(n), '0']
        if good:
            occs = r['ok']['batch']
            good = occs[0]['start'] == 0 and occs[0]['end'] == len(toks) - 2 and occs[1]['start'] == len(toks) - 1
        if good:
            return {'key': {}, 'what': '', 'reproduced': False, 'replay': rep}
        cw = culprit_word(nat, code, concrete_phrase(card, m), skip=(L.conj,))
        return {'key': {'lang': code, 'word': cw, 'kind': 'trailing-zero'}, 'reproduced': True, 'replay': rep, 'culprit': cw,
                'what': '%s: %r gives %s, expected %s' % (code, ''.join(t.text for t in toks),
                                                         [o['text'] for o in r.get('ok', {}).get('batch', [])], [str(n), '0'])}
    ck.prove_none(name + ':trailing-zero', assm3, bad3, on_cex_3,
                  lambda m, cex: block_word([slots3], cex['culprit']) if cex.get('culprit') else None)
    ck.cover(name + ':trailing-zero:ok', assm3 + [z3.Or(*ok3)] if ok3 else [False],
             lambda m: {'lang': code, 'tokens': [t.text for t in concrete_tokens(tslots3, m)]})
    # lone zero
    ex4 = make_executor(ck, [])
    res4 = run_validator(ck, ex4, L, [[(True, L.zero)]])
    ck.absorb(ex4)
    ok = len(res4) == 1 and concrete_int(res4[0].ret.disc) == 0 and res4[0].ret.payload(0)[0] == '0' and not ex4.panics
    ck.obligations += 1
    if ok:
        ck.discharged += 1
    else:
        ck.violations.append(__import__('checks.common', fromlist=['Violation']).Violation(
            name + ':lone-zero', {'lang': code, 'kind': 'lone-zero'}, 'text2digits(%r) is not Ok("0")' % L.zero,
            {'lang': code, 'text': L.zero, 'native': ck.native().t2d(code, L.zero)}))
    for o in L.OUTSIDE:
        s = '%s: %s' % (code, o)
        if s not in ck.outside:
            ck.outside.append(s)


def text_is(v, s):
    from mirsym.strings import to_symstr
    if isinstance(v, str):
        return z3.BoolVal(v == s)
    if isinstance(v, Choice):
        return z3.Or(*[z3.And(z3.BoolVal(c) if isinstance(c, bool) else c, text_is(x, s)) for c, x in v.alts])
    seq = to_symstr(v).seq
    b = s.encode('utf-8')
    conds = [B64(seq.len) == len(b)]
    for i, ch in enumerate(b):
        if i < seq.cap:
            conds.append((bv(seq.elems[i], 8) if is_sym(seq.elems[i]) else z3.BitVecVal(seq.elems[i], 8)) == ch)
        else:
            return z3.BoolVal(False)
    return z3.And(*conds)


def run(ck: Check):
    import os
    langs = list(LANGS)
    only = os.environ.get('VERIF_LANGS')
    if only:
        langs = [c for c in langs if c in only.split(',')]
    if ck.tier == 'quick':
        jobs = [(c, d) for d in ('scales', 'low4') for c in langs]
    else:
        jobs = [(c, 'full9') for c in langs]
    run_parallel(ck, worker, jobs)
    ck.outside.append('more than %d leading zero words; quick: n outside the two domains (n < 10^4; one free digit per group of three); thorough: n >= 10^9'
                      % (3 if ck.tier == 'quick' else 6))
    return ('k spoken zeros (k symbolic) followed by the spelling of n (digits symbolic, via the reference speller): '
            'text2digits and find_numbers executed from MIR, z3 decides that the result is the single numeral 0^k n; '
            'spell(n) followed by a zero gives the two numerals n and 0; the lone zero word validates to "0".')

"""Bounded model checking of the scanner over token streams whose tokens are solver-chosen.

A stream has k word positions separated by k-1 separator positions (fixed layout: word i is token 2i).  Each position
is a slot whose alternatives are the representatives of the *behaviour classes* of the language's alphabet (classes are
computed by executing apply/apply_decimal symbolically from a generic builder state, see word_classes); hint flags and
case variants can be symbolic per token."""
import hashlib
import z3
from .common import Check, new_executor, Inconclusive, load_mir
from .spelled import *
from .alphabet import vocabulary_words, CLASS_REPS
from mirsym import harness as H
from mirsym import strings
from mirsym.values import *
from oracle.langs import LANGS

SEPARATORS = [' ', ', ', '. ', '-', '; ', '.', ' - ']


def _generic_ds(n_max=5, cap=12):
    cells = [z3.BitVec('g_c%d' % i, 8) for i in range(cap)]
    ln, lz, flags, md = z3.BitVec('g_len', 64), z3.BitVec('g_lz', 64), z3.BitVec('g_flags', 64), z3.BitVec('g_marker', 64)
    frozen = z3.Bool('g_frozen')
    valid = [z3.ULE(ln, n_max), z3.ULE(lz, 2), z3.ULE(md, 2), z3.ULE(flags, 63)]
    for c in cells:
        valid.append(z3.And(z3.UGE(c, 48), z3.ULE(c, 57)))
    marker = Enum('MorphologicalMarker', md, ((0, ('º',)), (1, ('avo',)), (2, ())))
    return Struct('DigitString', (Seq(tuple(cells), ln, 'u8'), lz, frozen, flags, marker)), valid


def _sig_value(v):
    if is_sym(v):
        return z3.simplify(v).sexpr() if False else v.sexpr()
    if isinstance(v, Struct):
        return ('S', v.ty) + tuple(_sig_value(x) for x in v.fields)
    if isinstance(v, Enum):
        return ('E', v.ty, _sig_value(v.disc)) + tuple((i, tuple(_sig_value(x) for x in f)) for i, f in v.payloads)
    if isinstance(v, Seq):
        return ('Q', _sig_value(v.len)) + tuple(_sig_value(x) for x in v.elems)
    if isinstance(v, SymStr):
        return ('Y', _sig_value(v.seq))
    if isinstance(v, tuple):
        return tuple(_sig_value(x) for x in v)
    if isinstance(v, Choice):
        return ('C',) + tuple((_sig_value(c), _sig_value(x)) for c, x in v.alts)
    return repr(v)


def word_signature(ex, lang, L, word, ds, fns):
    """behaviour of every function of the interpreter that the scanner/validator applies to a word, from a generic
    builder state"""
    lower = strings.rust_lowercase(word)
    sig = []
    for fname in ('apply', 'apply_decimal'):
        n_p = len(ex.panics)
        res = ex.explore(fns[fname], [lang, lower, Ref('root', 'ds')], roots={'ds': ds})
        paths = []
        for r in res:
            paths.append((tuple(str(c) if isinstance(c, bool) else c.sexpr() for c in r.cond), _sig_value(r.ret),
                          _sig_value(r.roots['ds'])))
        paths.sort(key=repr)
        pan = tuple(sorted((p.kind, p.where, tuple(c.sexpr() if is_sym(c) else str(c) for c in p.cond))
                           for p in ex.panics[n_p:]))
        sig.append((tuple(paths), pan))
    for fname, arg in (('is_decimal_sep', lower), ('is_linking', word), ('is_linking', lower), ('get_morph_marker', lower)):
        res = ex.explore(fns[fname], [lang, arg])
        sig.append(tuple(_sig_value(r.ret) for r in res))
    text = word
    sig.append((text == '-', all(strings.char_is_whitespace(ord(c)) for c in text),
                all(not strings._alpha(ord(c)) for c in text), text.strip() == '.' if False else _trim(text) == '.',
                all(strings.char_is_ascii_whitespace(ord(c)) for c in lower), lower == 'o', lower == 'neuf',
                lower in ('un', 'le', 'du', "l'", 'numéro'), all(not strings._alnum(ord(c)) for c in lower),
                '-' in lower))
    return hashlib.sha256(repr(sig).encode('utf-8')).hexdigest()


def _trim(s):
    i, j = 0, len(s)
    while i < j and strings.char_is_whitespace(ord(s[i])):
        i += 1
    while j > i and strings.char_is_whitespace(ord(s[j - 1])):
        j -= 1
    return s[i:j]


def interpreter_fns(ex, L):
    fns = {}
    for m in ('apply', 'apply_decimal', 'is_decimal_sep', 'is_linking', 'get_morph_marker'):
        c = ex.res.find_impl(L.type_name, 'LangInterpreter', m)
        if len(c) != 1:
            raise Inconclusive('%s::%s not found' % (L.type_name, m))
        fns[m] = ex.mir.functions[c[0]][-1]
    return fns


def word_classes(ck, code, extra_words=(), reps=True):
    """-> list of (representative, [members]) for the language's alphabet"""
    mir, res, th, mh = load_mir()
    L = LANGS[code]
    words = vocabulary_words(mir, res, code, with_reps=reps)
    words = sorted(set(words) | set(extra_words))
    ds, valid = _generic_ds()
    ex = new_executor(valid, cap=12)
    lang = H.lang_value(ex, L.type_name)
    fns = interpreter_fns(ex, L)
    classes = {}
    order = []
    prefer = set(getattr(L, 'UNITS', []) or []) | {L.zero, L.conj, L.decimal_sep}
    for w in words:
        try:
            s = word_signature(ex, lang, L, w, ds, fns)
        except Unsupported as e:
            raise Inconclusive('signature of %r: %s' % (w, e))
        if s not in classes:
            classes[s] = []
            order.append(s)
        classes[s].append(w)
    ck.absorb(ex)
    out = []
    for s in order:
        ms = classes[s]
        rep = next((w for w in ms if w in prefer), ms[0])
        out.append((rep, ms))
    return out


def stream_alphabet(ck, code, quick):
    """-> (representative words, classes).  quick: the core words of the language + a linking word + ordinary/odd tokens,
    reduced to one word per behaviour class; thorough: one representative of every behaviour class"""
    from oracle.langs import CORE_WORDS, CORE_OTHERS
    mir, res, th, mh = load_mir()
    if not quick:
        classes = word_classes(ck, code)
        return [r for r, _ in classes], classes
    linking = sorted(w for w in vocabulary_words(mir, res, code, with_inflections=False) if False)
    words = list(CORE_WORDS[code]) + list(CORE_OTHERS)
    # one linking word (first INSIGNIFICANT entry that is not a number word or conjunction)
    ex = new_executor()
    L = LANGS[code]
    lang = H.lang_value(ex, L.type_name)
    fns = interpreter_fns(ex, L)
    for w in vocabulary_words(mir, res, code, with_inflections=False):
        if w in words or w == L.conj:
            continue
        r = ex.explore(fns['is_linking'], [lang, w])
        if len(r) == 1 and r[0].ret is True:
            words.append(w)
            break
    classes = word_classes_of(ck, code, words)
    return [r for r, _ in classes], classes


def word_classes_of(ck, code, words):
    L = LANGS[code]
    ds, valid = _generic_ds()
    ex = new_executor(valid, cap=12)
    lang = H.lang_value(ex, L.type_name)
    fns = interpreter_fns(ex, L)
    classes, order = {}, []
    for w in words:
        s = word_signature(ex, lang, L, w, ds, fns)
        if s not in classes:
            classes[s] = []
            order.append(s)
        classes[s].append(w)
    ck.absorb(ex)
    return [(classes[s][0], classes[s]) for s in order]


class Stream:
    """k word positions with separators between them; token 2i is word i, token 2i+1 separator i"""

    def __init__(self, code, reps, k, seps=None, sym_flags=False, prefix='s'):
        self.code = code
        self.k = k
        self.reps = list(reps)
        self.seps = list(seps if seps is not None else SEPARATORS)
        self.w = [z3.BitVec('%s_w%d' % (prefix, i), 16) for i in range(k)]
        self.s = [z3.BitVec('%s_sep%d' % (prefix, i), 8) for i in range(k - 1)]
        self.assm = [z3.ULT(x, len(self.reps)) for x in self.w] + [z3.ULT(x, len(self.seps)) for x in self.s]
        self.sym_flags = sym_flags
        self.sepf = [z3.Bool('%s_sepflag%d' % (prefix, i)) for i in range(2 * k - 1)] if sym_flags else None
        self.nanf = [z3.Bool('%s_nanflag%d' % (prefix, i)) for i in range(2 * k - 1)] if sym_flags else None
        self.ntok = 2 * k - 1
        self.slots = self._slots()

    def tok(self, text, idx):
        lower = strings.rust_lowercase(text)
        if self.sym_flags:
            return H.VTok(text, lower, self.sepf[idx], self.nanf[idx])
        return H.VTok(text, lower)

    def _slots(self):
        slots = []
        for i in range(self.k):
            slots.append(tuple((self.w[i] == j, self.tok(r, 2 * i)) for j, r in enumerate(self.reps)))
            if i < self.k - 1:
                slots.append(tuple((self.s[i] == j, self.tok(sp, 2 * i + 1)) for j, sp in enumerate(self.seps)))
        return tuple(slots)

    def concrete(self, m):
        toks = []
        for i in range(self.k):
            toks.append(self.reps[m.eval(self.w[i], model_completion=True).as_long()])
            if i < self.k - 1:
                toks.append(self.seps[m.eval(self.s[i], model_completion=True).as_long()])
        out = []
        for idx, t in enumerate(toks):
            sep = z3.is_true(m.eval(self.sepf[idx], model_completion=True)) if self.sym_flags else False
            nan = z3.is_true(m.eval(self.nanf[idx], model_completion=True)) if self.sym_flags else False
            out.append((t, None, sep, nan))
        return out

    def word_attr(self, i, fn):
        """z3 term: attribute fn(rep) (python bool/int) of the word chosen at position i"""
        vals = [fn(r) for r in self.reps]
        if all(isinstance(v, bool) for v in vals):
            return z3.Or(*[self.w[i] == j for j, v in enumerate(vals) if v]) if any(vals) else z3.BoolVal(False)
        res = z3.BitVecVal(vals[-1], 64)
        for j in range(len(vals) - 2, -1, -1):
            res = z3.If(self.w[i] == j, z3.BitVecVal(vals[j], 64), res)
        return res

    def sep_attr(self, i, fn):
        vals = [fn(r) for r in self.seps]
        return z3.Or(*[self.s[i] == j for j, v in enumerate(vals) if v]) if any(vals) else z3.BoolVal(False)


def occurrences(r):
    """PathResult of find_numbers -> (len term, list of (start, end, text, value, is_ordinal) for every capacity slot)"""
    v = r.ret
    if not isinstance(v, Seq):
        raise Inconclusive('find_numbers did not return a sequence: %r' % type(v))
    occs = []
    for o in v.elems:
        if isinstance(o, Choice):
            raise Inconclusive('occurrence is a Choice')
        if o is UNINIT or o is None:
            continue
        occs.append(o.fields)
    return B64(v.len), occs

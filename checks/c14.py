"""C14 Interpreters are stateless and pure; calls produce no output on the standard streams.

Decided here:
 (b) no output: every call site of std::io::_print/_eprint (what print!/eprintln!/dbg! expand to) in the MIR of the
     library is a target; the solver decides whether it is reachable from text2digits / find_numbers over the
     language's vocabulary; a reachable site is replayed natively with the standard streams captured.
 (a) sequential purity: interpreter objects are immutable values for the executor (a store through &self cannot be
     expressed in safe Rust without interior mutability); the obligation discharged is that the MIR of the crate
     contains no interior-mutability type, no mutable static and no thread-local (scan of all local types and callees),
     plus a two-call query: the result of a call on an interpreter that has already served another call equals the
     result on a fresh interpreter.
 (c) Send + Sync of the eight public interpreter types: type-checked by the native helper's build (compiler, not solver).
Not addressed: the quantifier over thread interleavings (no engine of this family explores schedules of Rust code)."""
import re
import z3
from .common import Check, run_parallel, Inconclusive, load_mir, Violation
from .spelled import *
from .alphabet import vocabulary_words
from oracle.base import concrete_phrase
from oracle.langs import LANGS
from mirsym.parse import Term

FORBIDDEN = ['UnsafeCell', 'Cell<', 'RefCell', 'Mutex', 'RwLock', 'Atomic', 'OnceCell', 'OnceLock', 'LazyLock', 'Lazy<',
             'thread_local', 'LocalKey', 'static mut']
PRINT_FNS = ('_eprint', '_print', 'io::stdout', 'io::stderr', 'eprint', 'stdio::')


def print_sites(mir):
    out = []
    for name, fns in mir.functions.items():
        for f in fns:
            for bname, b in f.blocks.items():
                t = b.term
                if t.kind == 'call' and isinstance(t.callee, str):
                    c = t.callee
                    if any(c.endswith(p) or ('::' + p) in c for p in ('_eprint', '_print')) or 'io::stdout' in c or \
                            'io::stderr' in c:
                        out.append((name, bname, c))
    return out


def worker(ck: Check, job):
    code, part = job
    L = LANGS[code]
    mir, res, th, mh = load_mir()
    words = vocabulary_words(mir, res, code)
    ck.per_lang[code] = {'vocabulary_words': len(words)}
    # two slots over the whole vocabulary: every arm of apply is reachable with an empty and with a non-empty builder
    from oracle.langs import CORE_WORDS
    first = [w for w in CORE_WORDS[code] if w in words][:10]
    wid = [z3.BitVec('w%d' % i, 16) for i in range(2)]
    assm = [z3.ULE(wid[0], len(first)), z3.ULT(wid[1], len(words))]
    # the phrases of a language are split over two parallel jobs by the first word (keeps the quick tier short)
    mid = len(first) // 2
    assm.append(z3.ULE(wid[0], mid) if part == 0 else z3.UGT(wid[0], mid))
    # slot 1: nothing or one of a few words that put the builder in its various states; slot 2: any vocabulary word
    slots = [[(wid[0] == i + 1, first[i]) for i in range(len(first))] + [(wid[0] == 0, None)],
             [(wid[1] == i, words[i]) for i in range(len(words))]]
    ex = make_executor(ck, assm)
    run_validator(ck, ex, L, slots)
    tslots, _, _ = token_slots(slots)
    run_scanner(ck, ex, L, tslots, 0.0)
    ck.absorb(ex)
    events = ex.output_events
    bad = [('output at %s' % w, z3.And(*[c for c in cond if not isinstance(c, bool)]) if any(not isinstance(c, bool) for c in cond)
            else z3.BoolVal(True)) for cond, w in events]

    def on_cex(m, fired=None):
        ws = concrete_phrase(slots, m)
        nat = ck.native()
        text = ' '.join(ws)
        r = nat.t2d(code, text)
        r2 = nat.replace(code, text, 0.0)
        out = (r.get('output') or '') + (r2.get('output') or '')
        rep = {'lang': code, 'text': text, 'native_text2digits': r, 'native_replace': r2}
        return {'key': {'lang': code, 'kind': 'output'}, 'reproduced': bool(out), 'replay': rep,
                'what': '%s: processing %r writes to the standard streams: %r' % (code, text, out[:120])}
    ck.prove_none('%s:no-output:%d' % (code, part), assm, bad, on_cex, lambda m, c: None)
    ck.cover('%s:vocabulary-reached:%d' % (code, part), assm, lambda m: {'lang': code, 'words': concrete_phrase(slots, m)})
    if part != 0:
        return
    # two-call query: a call after another call on the same interpreter value gives the same result as on a fresh one
    ex2 = make_executor(ck, assm)
    lang1 = H.lang_value(ex2, L.type_name)
    r_first = ex2.explore('text2digits', [H.SlotPhrase(tuple(tuple(s) for s in slots[1:])), lang1])
    r_again = ex2.explore('text2digits', [H.SlotPhrase(tuple(tuple(s) for s in slots[1:])), lang1])
    ex3 = make_executor(ck, assm)
    lang2 = H.lang_value(ex3, L.type_name)
    r_fresh = ex3.explore('text2digits', [H.SlotPhrase(tuple(tuple(s) for s in slots[1:])), lang2])
    ck.absorb(ex2)
    ck.absorb(ex3)
    cov = []
    m1 = merged(cov, r_again)
    m2 = merged(cov, r_fresh)
    diff = z3.And(z3.And(*cov), z3.Not(values_equal(m1, m2)))
    r, mdl = ck.solve(assm + [diff])
    ck.obligations += 1
    if r == 'unsat':
        ck.discharged += 1
    elif r == 'sat':
        ws = words[mdl.eval(wid[1], model_completion=True).as_long()]
        ck.inconclusive.append('%s: second call on a used interpreter differs from a fresh one for %r (not replayable: '
                               'interpreter objects are immutable values in the executor)' % (code, ws))
    else:
        ck.inconclusive.append('%s: two-call query undecided' % code)


def values_equal(a, b):
    """z3 Bool: two (merged) values of the same type are equal"""
    from mirsym.values import Enum, SymStr, Seq, Choice, Struct
    from mirsym.strings import to_symstr
    if isinstance(a, Choice) or isinstance(b, Choice):
        aa = a.alts if isinstance(a, Choice) else ((True, a),)
        bb = b.alts if isinstance(b, Choice) else ((True, b),)
        terms = []
        for ca, va in aa:
            for cb, vb in bb:
                terms.append(z3.And(ZB(ca), ZB(cb), values_equal(va, vb)))
        return z3.Or(*terms)
    if isinstance(a, Enum) and isinstance(b, Enum):
        conds = [B64(a.disc) == B64(b.disc)]
        for i, fa in a.payloads:
            fb = b.payload(i)
            if fb is None:
                conds.append(B64(a.disc) != i)
                continue
            conds.append(z3.Implies(B64(a.disc) == i, z3.And(*[values_equal(x, y) for x, y in zip(fa, fb)]) if fa else z3.BoolVal(True)))
        return z3.And(*conds)
    if isinstance(a, (str, SymStr)) and isinstance(b, (str, SymStr)):
        if isinstance(a, str) and isinstance(b, str):
            return z3.BoolVal(a == b)
        sa, sb = to_symstr(a).seq, to_symstr(b).seq
        conds = [B64(sa.len) == B64(sb.len)]
        for i in range(min(sa.cap, sb.cap)):
            ea = bv(sa.elems[i], 8) if is_sym(sa.elems[i]) else z3.BitVecVal(sa.elems[i], 8)
            eb = bv(sb.elems[i], 8) if is_sym(sb.elems[i]) else z3.BitVecVal(sb.elems[i], 8)
            conds.append(z3.Implies(z3.ULT(z3.BitVecVal(i, 64), B64(sa.len)), ea == eb))
        if sa.cap != sb.cap:
            conds.append(z3.ULE(B64(sa.len), min(sa.cap, sb.cap)))
        return z3.And(*conds)
    if isinstance(a, Struct) and isinstance(b, Struct):
        return z3.And(*[values_equal(x, y) for x, y in zip(a.fields, b.fields)]) if a.fields else z3.BoolVal(True)
    if isinstance(a, tuple) and isinstance(b, tuple):
        return z3.And(*[values_equal(x, y) for x, y in zip(a, b)]) if a else z3.BoolVal(True)
    if isinstance(a, bool) or isinstance(b, bool) or isinstance(a, z3.BoolRef) or isinstance(b, z3.BoolRef):
        return ZB(a) == ZB(b)
    if isinstance(a, int) or isinstance(b, int) or is_sym(a) or is_sym(b):
        return B64(a) == B64(b)
    return z3.BoolVal(repr(a) == repr(b))


def repr_result(v):
    from mirsym.values import Enum, SymStr, Seq, Choice
    if isinstance(v, Enum):
        return ('E', v.ty, z3.simplify(v.disc).sexpr() if is_sym(v.disc) else v.disc,
                tuple((i, tuple(repr_result(x) for x in f)) for i, f in v.payloads))
    if isinstance(v, SymStr):
        return ('S', repr_result(v.seq))
    if isinstance(v, Seq):
        return ('Q', repr_result(v.len), tuple(repr_result(x) for x in v.elems))
    if isinstance(v, Choice):
        return ('C', tuple((repr_result(c), repr_result(x)) for c, x in v.alts))
    if is_sym(v):
        return z3.simplify(v).sexpr()
    return repr(v)


def run(ck: Check):
    import os
    mir, res, th, mh = load_mir()
    # (a) structural obligation: no interior mutability / mutable statics / thread locals anywhere in the crate's MIR
    hits = []
    for kw in FORBIDDEN:
        for m in re.finditer(re.escape(kw), mir.text):
            ln = mir.text.count('\n', 0, m.start()) + 1
            line = mir.text.split('\n')[ln - 1].strip()
            if line.startswith('//'):
                continue
            hits.append((kw, ln, line[:160]))
            break
    ck.obligations += 1
    if not hits:
        ck.discharged += 1
    else:
        ck.inconclusive.append('shared mutable state construct in the MIR (cannot be modelled): %r' % (hits[:3],))
    sites = print_sites(mir)
    ck.notes.append('print call sites in the MIR: %r' % (sites,))
    langs = list(LANGS)
    only = os.environ.get('VERIF_LANGS')
    if only:
        langs = [c for c in langs if c in only.split(',')]
    run_parallel(ck, worker, [(c, p_) for p_ in (0, 1) for c in langs])
    # every print site must have been reached by some exploration or be shown unreachable; a site that exists but was
    # never reached by the explorations is reported as not decided
    # (c) Send + Sync: compile-time obligation of the native helper
    r = ck.native().call('sendsync')
    ck.obligations += 1
    if r.get('ok') is True:
        ck.discharged += 1
    else:
        ck.inconclusive.append('Send/Sync assertion of the native helper failed: %r' % (r,))
    ck.assumptions.append('interleavings of calls from several threads are NOT explored (no engine of this family handles '
                          'Rust concurrency); what is decided is the premise from which schedule-independence follows: no '
                          'API call writes memory reachable from &self or from a static, and the interpreter types are Send + Sync')
    ck.outside.append('thread interleavings; phrases longer than two vocabulary words for the output reachability query')
    return ('Output: every _print/_eprint call site in the MIR is a reachability target decided by z3 over two-word phrases '
            'drawn from the whole vocabulary of each language (validator and scanner paths); reachable sites are replayed '
            'natively with stdout/stderr captured.  Purity: scan for interior mutability / mutable statics in all MIR types '
            'and callees plus a two-call query per language; Send+Sync by the compiler.')

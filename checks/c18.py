"""C18 English 'o' is read as zero only next to another number word."""
import z3
from .common import Check, run_parallel, Inconclusive
from .textlevel import *
from mirsym import strings
from oracle.langs import LANGS

SEPS = [' ', ', ', '. ', '\u00a0', '  ', '; ']
PLAIN = 'q'       # an ordinary one-letter word that is neither a number word nor a linking word


def worker(ck: Check, job):
    thr, p = job
    L = LANGS['en']
    quick = ck.tier == 'quick'
    k = 3
    reps, classes = stream_alphabet(ck, 'en', True)
    reps = [r for r in reps if H._wordlike(r) and r != 'o'] + ['o']
    others = [i for i, r in enumerate(reps) if r != 'o']
    O = reps.index('o')
    w = [z3.BitVec('o_w%d' % i, 16) for i in range(k)]
    s = [z3.BitVec('o_s%d' % i, 8) for i in range(k - 1)]
    assm = [z3.ULT(x, len(reps)) for x in w] + [z3.ULT(x, len(SEPS)) for x in s] + [w[p] == O]
    sep_slots = [[(s[i] == j, r) for j, r in enumerate(SEPS)] for i in range(k - 1)]

    def word_slots(repl):
        out = []
        for i in range(k):
            alts = []
            for j, r in enumerate(reps):
                word = repl if (i == p and r == 'o' and repl is not None) else r
                alts.append((w[i] == j, word))
            out.append(alts)
        return out
    T = parts_text(word_slots(None), sep_slots)
    Tz = parts_text(word_slots('zero'), sep_slots)
    Tp = parts_text(word_slots(PLAIN), sep_slots)
    # oracle: a word the English interpreter accepts as a number on its own
    exq = new_executor()
    lang = H.lang_value(exq, L.type_name)

    def number_word(wd):
        r = exq.explore('text2digits', [wd, lang])
        return len(r) == 1 and concrete_int(r[0].ret.disc) == 0

    numw = [number_word(r) for r in reps]
    ws_only = [all(strings.char_is_whitespace(ord(c)) for c in sp) for sp in SEPS]

    def is_num(i):
        return z3.Or(*[w[i] == j for j, v in enumerate(numw) if v]) if any(numw) else z3.BoolVal(False)

    def sep_ws(i):
        return z3.Or(*[s[i] == j for j, v in enumerate(ws_only) if v])
    before = z3.And(sep_ws(p - 1), is_num(p - 1)) if p > 0 else z3.BoolVal(False)
    after = z3.And(sep_ws(p), is_num(p + 1)) if p < k - 1 else z3.BoolVal(False)
    N = z3.Or(before, after)
    name = 'en:o@%d:thr=%s' % (p, thr)
    outs = {}
    bad = []
    cov = []
    for label, txt in (('as-is', T), ('zero', Tz), ('plain', Tp)):
        ex = text_executor(ck, assm)
        outs[label] = merged_occs(text_find(ex, L, txt, thr), cov)
        ck.absorb(ex)
        bad += [('panic (%s): %s %s at %s' % (label, p_.kind, p_.msg, p_.where), c) for p_, c in zip(ex.panics, conds_of(ex.panics))]
    bad.append(("'o' next to a number word is not treated like 'zero'", z3.And(N, z3.Not(occs_equal(outs['as-is'], outs['zero'])))))
    bad.append(("'o' away from any number word is not treated like an ordinary word",
                z3.And(z3.Not(N), z3.Not(occs_equal(outs['as-is'], outs['plain'])))))

    def on_cex(m, fired=None):
        nat = ck.native()
        t, parts = concrete_text(T, m)
        tz, _ = concrete_text(Tz, m)
        tp, _ = concrete_text(Tp, m)
        n_holds = z3.is_true(m.eval(N, model_completion=True))
        r = {x: nat.textfind('en', y, thr) for x, y in (('as-is', t), ('zero', tz), ('plain', tp))}
        key = lambda q: [(o['start'], o['end'], o['text'], o['is_ordinal']) for o in q.get('ok', {}).get('occs', [])]
        other = 'zero' if n_holds else 'plain'
        differs = key(r['as-is']) != key(r[other])
        neighbours = [parts[2 * p - 1] if p > 0 else None, parts[2 * p + 1] if p < k - 1 else None]
        nonascii = any(x is not None and any(ord(c) > 127 for c in x) for x in neighbours)
        rep = {'text': t, 'compared_with': {'zero': tz, 'plain': tp}[other], 'neighbour_is_number_word': n_holds,
               'native': {x: key(y) for x, y in r.items()}}
        return {'key': {'lang': 'en', 'kind': 'non-ascii-whitespace-neighbour' if nonascii else 'o-rule'}, 'reproduced': differs,
                'replay': rep, 'what': "en thr=%s: %r gives %r but %r gives %r (number-word neighbour: %s)" % (
                    thr, t, key(r['as-is']), rep['compared_with'], key(r[other]), n_holds)}
    ck.prove_none(name, assm, guard(cov, bad), on_cex, lambda m, c: None)
    ck.cover(name + ':o-is-zero', assm + [N, z3.UGE(B64(outs['as-is'].len), 1)], lambda m: {'text': concrete_text(T, m)[0]})
    ck.cover(name + ':o-is-word', assm + [z3.Not(N)], lambda m: {'text': concrete_text(T, m)[0]})
    ck.bounds['text_words'] = k


def run(ck: Check):
    jobs = [(t, p) for t in ((0.0, 10.0) if ck.tier != 'quick' else (0.0,)) for p in range(3)]
    if ck.tier == 'quick':
        jobs.append((10.0, 1))
    run_parallel(ck, worker, jobs)
    ck.outside += ['texts of more than 3 words', "separators other than: space, ', ', '. ', no-break space, two spaces, '; '",
                   'tokenizer behaviour on arbitrary characters (C02)']
    ck.assumptions.append("'number word' = a word that text2digits accepts on its own (evaluated through the executor)")
    return ("English texts of three solver-chosen words with 'o' at a solver-independent position and solver-chosen separators "
            "are pushed through tokenize/basic_annotate/find_numbers from MIR three times: as is, with that 'o' replaced by "
            "'zero', and by an ordinary one-letter word; z3 decides that the first equals the second when the nearest "
            "non-whitespace neighbour before or after is a number word and the third otherwise.")

"""C12 Digit builder: one inductive step from an arbitrary valid state, for every operation and query.

The pre-state is symbolic (buffer of symbolic length <= N holding arbitrary ASCII digits, garbage beyond the length,
zero counter, frozen bit, flags, marker).  Each public method is executed from its MIR; the solver decides that the
result and post-state equal the reference semantics written from the method documentation (spec_* below), that no
panic condition is satisfiable, and that the representation invariant is re-established (induction)."""
import os
import z3
from .common import Check, new_executor, Inconclusive
from mirsym.values import *
from mirsym.intrinsics import ult, ule

DS = None


def ds_fn(ex, name):
    for sty, tr, rest, defname, module, _ in ex.res.impl_defs:
        if sty == 'DigitString' and tr is None and rest == name:
            return defname
    raise Inconclusive('DigitString::%s not found in MIR' % name)


def deref_fn(ex):
    for sty, tr, rest, defname, module, _ in ex.res.impl_defs:
        if sty == 'DigitString' and tr == 'Deref' and rest == 'deref':
            return defname
    raise Inconclusive('Deref for DigitString not found')


ERR = {'Overlap': 0, 'NaN': 1, 'Incomplete': 2, 'Frozen': 3}
MARKERS = {0: ('Ordinal', 'th'), 1: ('Fraction', 'avos'), 2: ('None', None)}


class View:
    """uniform view of a builder state: z3 terms"""

    def __init__(self, cells, ln, lz, frozen, flags, mdisc, mstr=None):
        self.cells, self.ln, self.lz, self.frozen, self.flags, self.mdisc, self.mstr = cells, ln, lz, frozen, flags, mdisc, mstr

    def cell(self, i):
        """cell at (possibly symbolic) left index i"""
        if isinstance(i, int):
            return self.cells[i] if i < len(self.cells) else z3.BitVecVal(0, 8)
        res = z3.BitVecVal(0, 8)
        for j in range(len(self.cells) - 1, -1, -1):
            res = z3.If(i == j, self.cells[j], res)
        return res


def B64(x):
    return x if is_sym(x) else z3.BitVecVal(x, 64)


def B8(x):
    return bv(x, 8) if is_sym(x) else z3.BitVecVal(x, 8)


def ZB(x):
    return x if is_sym(x) else z3.BoolVal(bool(x))


def view_of_value(ds, cap):
    buf, lz, frozen, flags, marker = ds.fields
    cells = [B8(e) if e is not UNINIT and e is not None else z3.BitVecVal(0, 8) for e in buf.elems]
    cells += [z3.BitVecVal(0, 8)] * (cap - len(cells))
    if isinstance(marker, Choice):
        raise Inconclusive('marker is a Choice')
    mstr = None
    d = concrete_int(marker.disc)
    if d is not None and d in (0, 1):
        mstr = marker.payload(d)[0]
    return View(cells, B64(buf.len), B64(lz), ZB(frozen), B64(flags), B64(marker.disc), mstr)


def sym_state(n_max, cap):
    cells = [z3.BitVec('c%d' % i, 8) for i in range(cap)]
    ln, lz, flags, md = z3.BitVec('len', 64), z3.BitVec('lz', 64), z3.BitVec('flags', 64), z3.BitVec('marker', 64)
    frozen = z3.Bool('frozen')
    valid = [z3.ULE(ln, n_max), z3.ULE(lz, 3), z3.ULE(md, 2)]
    for i, c in enumerate(cells):
        valid.append(z3.Implies(z3.ULT(z3.BitVecVal(i, 64), ln), z3.And(z3.UGE(c, 48), z3.ULE(c, 57))))
    marker = Enum('MorphologicalMarker', md, ((0, ('th',)), (1, ('avos',)), (2, ())))
    value = Struct('DigitString', (Seq(tuple(cells), ln, 'u8'), lz, frozen, flags, marker))
    return value, View(cells, ln, lz, frozen, flags, md), valid


def is_digit(c):
    return z3.And(z3.UGE(c, 48), z3.ULE(c, 57))


def invariant(v: View):
    conds = [z3.ULE(v.mdisc, 2)]
    for i, c in enumerate(v.cells):
        conds.append(z3.Implies(z3.ULT(z3.BitVecVal(i, 64), v.ln), is_digit(c)))
    return z3.And(*conds)


def same_state(a: View, b: View, cap):
    conds = [a.ln == b.ln, a.lz == b.lz, a.frozen == b.frozen, a.flags == b.flags, a.mdisc == b.mdisc]
    for i in range(cap):
        conds.append(z3.Implies(z3.ULT(z3.BitVecVal(i, 64), a.ln), a.cell(i) == b.cell(i)))
    return z3.And(*conds)


def buf_is(post: View, exp_len, exp_cell, cap, pre: View, lz=None, frozen=None, flags=None, mdisc=None):
    """post-state has buffer (exp_len, exp_cell(i)) and the other fields as given (default: as in pre)"""
    conds = [post.ln == exp_len,
             post.lz == (pre.lz if lz is None else lz),
             post.frozen == (pre.frozen if frozen is None else frozen),
             post.flags == (pre.flags if flags is None else flags),
             post.mdisc == (pre.mdisc if mdisc is None else mdisc)]
    for i in range(cap):
        conds.append(z3.Implies(z3.ULT(z3.BitVecVal(i, 64), exp_len), post.cell(i) == exp_cell(i)))
    return z3.And(*conds)


def result_is(ret, kind):
    """ret: Result<(), Error> value; kind 'Ok' or error name -> z3 Bool"""
    d = B64(ret.disc)
    if kind == 'Ok':
        return d == 0
    e = ret.payload(1)
    if e is None:
        return z3.BoolVal(False)
    return z3.And(d == 1, B64(e[0].disc) == ERR[kind])


def cases(*pairs):
    """first-match case analysis: pairs of (guard, consequence); returns conjunction of implications"""
    out = []
    prev = []
    for g, c in pairs:
        out.append(z3.Implies(z3.And(*(prev + [g])) if prev or g is not True else z3.BoolVal(True), c))
        prev.append(z3.Not(g) if g is not True else z3.BoolVal(False))
    return z3.And(*out)


def allzero(cs):
    return z3.And(*[c == 48 for c in cs]) if cs else z3.BoolVal(True)


K = lambda n: z3.BitVecVal(n, 64)


# ------------------------------------------------------------------ reference semantics (from the method docs)

def spec_put(pre, post, ret, d, cap):
    k = len(d)
    unchanged = same_state(pre, post, cap)
    tail_zero = z3.And(*[pre.cell(pre.ln - k + j) == 48 for j in range(k)])

    def placed(i):
        # cells[:ln-k] ++ d
        res = pre.cell(i)
        for j in range(k):
            res = z3.If(B64(i) == pre.ln - k + j, d[j], res)
        return res
    return cases(
        (pre.frozen, z3.And(result_is(ret, 'Frozen'), unchanged)),
        (z3.And(pre.ln == 0, z3.BoolVal(k == 1), d[0] == 48),
         z3.And(result_is(ret, 'Ok'), buf_is(post, pre.ln, pre.cell, cap, pre, lz=pre.lz + 1))),
        (allzero(d), z3.And(result_is(ret, 'Overlap'), unchanged)),
        (pre.ln == 0, z3.And(result_is(ret, 'Ok'), buf_is(post, K(k), lambda i: d[i] if i < k else z3.BitVecVal(0, 8), cap, pre))),
        (z3.ULT(pre.ln, k), z3.And(result_is(ret, 'Overlap'), unchanged)),
        (tail_zero, z3.And(result_is(ret, 'Ok'), buf_is(post, pre.ln, placed, cap, pre))),
        (True, z3.And(result_is(ret, 'Overlap'), unchanged)),
    )


def spec_fput(pre, post, ret, d, cap):
    k = len(d)
    unchanged = same_state(pre, post, cap)

    def placed(i):
        res = pre.cell(i)
        for j in range(k):
            res = z3.If(B64(i) == pre.ln - k + j, d[j], res)
        return res
    only_d = lambda i: d[i] if i < k else z3.BitVecVal(0, 8)
    return cases(
        (pre.frozen, z3.And(result_is(ret, 'Frozen'), unchanged)),
        (z3.ULE(pre.ln, k), z3.And(result_is(ret, 'Ok'), buf_is(post, K(k), only_d, cap, pre))),
        (True, z3.And(result_is(ret, 'Ok'), buf_is(post, pre.ln, placed, cap, pre))),
    )


def spec_push(pre, post, ret, d, cap):
    k = len(d)
    unchanged = same_state(pre, post, cap)

    def appended(i):
        res = pre.cell(i)
        for j in range(k):
            res = z3.If(B64(i) == pre.ln + j, d[j], res)
        return res
    return cases(
        (pre.frozen, z3.And(result_is(ret, 'Frozen'), unchanged)),
        (True, z3.And(result_is(ret, 'Ok'), buf_is(post, pre.ln + k, appended, cap, pre))),
    )


def spec_put_digit_at(pre, post, ret, g, pos, cap):
    unchanged = same_state(pre, post, cap)
    idx = pre.ln - 1 - pos

    def extended(i):
        # g ++ '0'*(pos-ln) ++ cells ; new length pos+1 ; old cell j lands at j + (pos+1-ln)
        off = pos + 1 - pre.ln
        return z3.If(B64(i) == 0, g, z3.If(z3.ULT(B64(i), off), z3.BitVecVal(48, 8), pre.cell(B64(i) - off)))

    def replaced(i):
        return z3.If(B64(i) == idx, g, pre.cell(i))
    return cases(
        (pre.frozen, z3.And(result_is(ret, 'Frozen'), unchanged)),
        (g == 48, z3.And(result_is(ret, 'Overlap'), unchanged)),
        (z3.UGE(pos, pre.ln), z3.And(result_is(ret, 'Ok'), buf_is(post, pos + 1, extended, cap, pre))),
        (pre.cell(idx) == 48, z3.And(result_is(ret, 'Ok'), buf_is(post, pre.ln, replaced, cap, pre))),
        (True, z3.And(result_is(ret, 'Overlap'), unchanged)),
    )


def spec_shift(pre, post, ret, p, cap):
    """p concrete"""
    unchanged = same_state(pre, post, cap)
    if p == 0:
        return cases((pre.frozen, z3.And(result_is(ret, 'Frozen'), unchanged)),
                     (True, z3.And(result_is(ret, 'Ok'), unchanged)))
    one_zeros = lambda i: z3.BitVecVal(49 if i == 0 else 48, 8)

    def padded(i):
        return z3.If(z3.ULT(B64(i), pre.ln), pre.cell(i), z3.BitVecVal(48, 8))
    window = [pre.cell(pre.ln - p + j) for j in range(p)]
    # number of leading zeros of the window (pz), with the all-zero window read as the group "1"
    branches = []
    for pz in range(p + 1):
        lead = z3.And(*([window[j] == 48 for j in range(pz)] + ([window[pz] != 48] if pz < p else [])))
        if pz == p:
            s = 1
            group = [z3.BitVecVal(49, 8)]
        else:
            s = p - pz
            group = window[pz:]
        dest_zero = z3.And(*[pre.cell(pre.ln - p - s + j) == 48 for j in range(s)])
        fits = z3.UGE(pre.ln, p + s)

        def shifted(i, s=s, group=group):
            res = pre.cell(i)
            for j in range(s):
                res = z3.If(B64(i) == pre.ln - p - s + j, group[j], res)
            return z3.If(z3.UGE(B64(i), pre.ln - p), z3.BitVecVal(48, 8), res)
        branches.append(z3.Implies(lead, z3.If(z3.And(fits, dest_zero),
                                               z3.And(result_is(ret, 'Ok'), buf_is(post, pre.ln, shifted, cap, pre)),
                                               z3.And(result_is(ret, 'Overlap'), unchanged))))
    return cases(
        (pre.frozen, z3.And(result_is(ret, 'Frozen'), unchanged)),
        (pre.ln == 0, z3.And(result_is(ret, 'Ok'), buf_is(post, K(p + 1), one_zeros, cap, pre))),
        (z3.ULE(pre.ln, p), z3.And(result_is(ret, 'Ok'), buf_is(post, pre.ln + p, padded, cap, pre))),
        (True, z3.And(*branches)),
    )


# ------------------------------------------------------------------ the check

def describe_state(m, pre: View):
    ev = lambda x: m.eval(x, model_completion=True)
    ln = ev(pre.ln).as_long()
    digits = ''.join(chr(ev(pre.cells[i]).as_long()) for i in range(ln))
    return {'buffer': digits, 'leading_zeroes': ev(pre.lz).as_long(), 'frozen': z3.is_true(ev(pre.frozen)),
            'flags': ev(pre.flags).as_long(), 'marker': MARKERS[ev(pre.mdisc).as_long()][0]}


def setup_script(st):
    ops = ['put:30'] * st['leading_zeroes']
    if st['buffer']:
        ops.append('push:' + st['buffer'].encode().hex())
    ops.append('set_flags:%d' % st['flags'])
    ops.append('set_marker:%s' % st['marker'])
    if st['frozen']:
        ops.append('freeze')
    ops.append('state')
    return ops


def native_view(state, frozen, cap):
    buf = state['buffer']
    cells = [z3.BitVecVal(b, 8) for b in buf] + [z3.BitVecVal(0, 8)] * (cap - len(buf))
    lz = state['len'] - len(buf)
    md = {'Ordinal': 0, 'Fraction': 1, 'None': 2}[state['marker']['kind']]
    return View(cells, K(len(buf)), K(lz), z3.BoolVal(frozen), K(state['flags']), K(md))


def native_ret(result):
    if result == 'Ok':
        return Enum('Result', 0, ((0, ((),)),))
    kind = result[4:-1]
    return Enum('Result', 1, ((1, (Enum('Error', ERR[kind], ((ERR[kind], ()),)),)),))


def run(ck: Check):
    quick = ck.tier == 'quick'
    N = 8 if quick else 14
    MAXK = 3 if quick else 4
    MAXP = 12
    cap = N + MAXP + 4
    ck.bounds = {'buffer_len_max': N, 'leading_zero_count_max': 3, 'digit_argument_len': '1..%d' % MAXK,
                 'shift_positions': '0..%d' % MAXP, 'put_digit_at_position_max': N + 2, 'cells': cap,
                 'query_arguments_max': N + 3}
    ck.outside = ['buffers longer than %d digits' % N, 'zero counters near usize::MAX (overflow of the counter)',
                  'arguments that are not ASCII digits (push/put accept any bytes; the property speaks of digit arguments)',
                  'positions > %d' % (N + 3), 'allocation failure']
    ck.assumptions = ['pre-state: buffer bytes below len are ASCII digits (the invariant re-proved for every operation), '
                      'bytes beyond len arbitrary; marker payloads are the strings "th"/"avos"',
                      'is_range_free is called with its documented precondition start < end']
    state_val, pre, valid = sym_state(N, cap)

    def mk_executor(extra=()):
        ex = new_executor(list(valid) + list(extra), cap=cap)
        return ex

    def digits_args(k, prefix='d'):
        ds = [z3.BitVec('%s%d' % (prefix, j), 8) for j in range(k)]
        return ds, [is_digit(d) for d in ds]

    def replay_op(m, opname, argdesc, native_op, spec_fn):
        """replay a counterexample natively: build the pre-state through the public API, run the op, evaluate the
        same reference semantics on the native observations."""
        st = describe_state(m, pre)
        nat = ck.native()
        setup = setup_script(st)
        r1 = nat.ds(setup + [native_op, 'state'])
        info = {'pre_state': st, 'op': native_op, 'native': None}
        if 'ok' not in r1:
            raise Inconclusive('native helper failed: %r' % (r1,))
        steps = r1['ok']['steps']
        info['native'] = steps[len(setup) - 1:]
        pre_step = steps[len(setup) - 1]
        if 'panic' in pre_step:
            raise Inconclusive('could not build pre-state natively: %r' % pre_step)
        # check the pre-state really is what the model says
        if pre_step['state']['to_string'] != '0' * st['leading_zeroes'] + st['buffer']:
            raise Inconclusive('native pre-state differs from model: %r' % pre_step)
        op_step = steps[len(setup)] if len(steps) > len(setup) else None
        if op_step is None or 'panic' in op_step:
            msg = op_step.get('panic') if op_step else 'missing'
            # also try the release profile
            rel = ck.native('release')
            r2 = rel.ds(setup + [native_op, 'state'])
            rel.close()
            info['release'] = r2['ok']['steps'][len(setup):] if 'ok' in r2 else r2
            return {'key': {'op': opname, 'kind': 'panic'}, 'what': '%s(%s) panics on builder %r: %s'
                    % (opname, argdesc, '0' * st['leading_zeroes'] + st['buffer'], msg), 'reproduced': True,
                    'replay': info}
        # frozen bit of the post-state: probe with a second run
        r3 = nat.ds(setup + [native_op, 'fput:31'])
        post_frozen = r3['ok']['steps'][-1].get('result') == 'Err(Frozen)'
        pre_v = native_view(pre_step['state'], st['frozen'], cap)
        post_v = native_view(op_step['state'], post_frozen, cap)
        ok_nat = spec_fn(pre_v, post_v, op_step['result'])
        holds = z3.is_true(z3.simplify(ok_nat))
        what = '%s(%s) on builder %r%s gives %s and leaves %r' % (
            opname, argdesc, '0' * st['leading_zeroes'] + st['buffer'], ' (frozen)' if st['frozen'] else '',
            op_step['result'], op_step['state']['to_string'])
        role = 'err-mutates' if op_step['result'].startswith('Err') and \
            op_step['state']['to_string'] != pre_step['state']['to_string'] else \
            ('frozen-accepted' if st['frozen'] and op_step['result'] == 'Ok' else 'wrong-result')
        return {'key': {'op': opname, 'kind': role}, 'what': what, 'reproduced': not holds, 'replay': info}

    def do_op(opname, fn_name, args, arg_valid, spec, native_op_of, argdesc_of, extra_names=''):
        ex = mk_executor(arg_valid)
        res = ex.explore(fn_name, [Ref('root', 'ds')] + list(args), roots={'ds': state_val})
        ck.absorb(ex)
        ck.transitions += len(res)
        name = '%s%s' % (opname, extra_names)
        bad = []
        covered = []
        for pr in res:
            post = view_of_value(pr.roots['ds'], cap)
            sp = spec(pre, post, pr.ret)
            inv = invariant(post)
            bad.append(z3.And(*(pr.cond + [z3.Not(z3.And(sp, inv))])))
            covered.append(z3.And(*pr.cond) if pr.cond else z3.BoolVal(True))
        for pn in ex.panics:
            bad.append(z3.And(*pn.cond) if pn.cond else z3.BoolVal(True))
            covered.append(z3.And(*pn.cond) if pn.cond else z3.BoolVal(True))
        for bc in ex.bound_conds:
            covered.append(z3.And(*bc[0]) if bc[0] else z3.BoolVal(True))
        assm = list(valid) + list(arg_valid)
        # executor sanity: the explored paths partition the valid pre-states
        r, _ = ck.solve(assm + [z3.Not(z3.Or(*covered))])
        if r != 'unsat':
            ck.inconclusive.append('paths of %s do not cover all valid states (%s)' % (name, r))
        if ex.bound_conds:
            ck.notes.append('%s: %d path(s) cut at the capacity bound' % (name, len(ex.bound_conds)))

        def on_cex(m):
            native_op = native_op_of(m)
            return replay_op(m, opname, argdesc_of(m), native_op,
                             lambda pv, qv, result: spec(pv, qv, native_ret(result)))

        def block(m, cex):
            return None
        ck.prove(name, assm, z3.Not(z3.Or(*bad)) if bad else True, on_cex, block)
        # vacuity: a success path and (where it exists) a failure path are reachable
        oks = [z3.And(*(pr.cond + [B64(pr.ret.disc) == 0])) for pr in res if hasattr(pr.ret, 'disc')]
        errs = [z3.And(*(pr.cond + [B64(pr.ret.disc) == 1])) for pr in res if hasattr(pr.ret, 'disc')]
        desc = lambda m: {'op': native_op_of(m), 'pre_state': describe_state(m, pre)}
        if oks:
            ck.cover(name + ':ok', assm + [z3.Or(*oks)], desc)
        if errs:
            ck.cover(name + ':err', assm + [z3.Or(*errs)], desc)

    ev = lambda m, x: m.eval(x, model_completion=True).as_long()
    hexd = lambda m, ds: bytes(ev(m, d) for d in ds).hex()
    strd = lambda m, ds: repr(bytes(ev(m, d) for d in ds).decode())

    ex0 = mk_executor()
    for opname, spec in (('put', spec_put), ('fput', spec_fput), ('push', spec_push)):
        fn = ds_fn(ex0, opname)
        for k in range(1, MAXK + 1):
            ds, dv = digits_args(k)
            arg = Seq(tuple(ds), k, 'u8')
            do_op(opname, fn, [arg], dv, lambda p, q, r, ds=ds, spec=spec: spec(p, q, r, ds, cap),
                  lambda m, ds=ds, opname=opname: '%s:%s' % (opname, hexd(m, ds)), lambda m, ds=ds: strd(m, ds),
                  extra_names='[%d]' % k)
    # put_digit_at
    g = z3.BitVec('g', 8)
    pos = z3.BitVec('pos', 64)
    do_op('put_digit_at', ds_fn(ex0, 'put_digit_at'), [g, pos], [is_digit(g), z3.ULE(pos, N + 2)],
          lambda p, q, r: spec_put_digit_at(p, q, r, g, pos, cap),
          lambda m: 'put_digit_at:%02x:%d' % (ev(m, g), ev(m, pos)), lambda m: '%r, %d' % (chr(ev(m, g)), ev(m, pos)))
    # shift
    fn = ds_fn(ex0, 'shift')
    for p in range(0, MAXP + 1):
        do_op('shift', fn, [p], [], lambda pr, q, r, p=p: spec_shift(pr, q, r, p, cap),
              lambda m, p=p: 'shift:%d' % p, lambda m, p=p: '%d' % p, extra_names='[%d]' % p)
    # freeze / reset (return unit)
    for opname in ('freeze', 'reset'):
        ex = mk_executor()
        res = ex.explore(ds_fn(ex, opname), [Ref('root', 'ds')], roots={'ds': state_val})
        ck.absorb(ex)
        bad = []
        for pr in res:
            post = view_of_value(pr.roots['ds'], cap)
            if opname == 'freeze':
                sp = buf_is(post, pre.ln, pre.cell, cap, pre, frozen=z3.BoolVal(True))
            else:
                sp = z3.And(post.ln == 0, post.lz == 0, z3.Not(post.frozen), post.flags == 0, post.mdisc == 2)
            bad.append(z3.And(*(pr.cond + [z3.Not(z3.And(sp, invariant(post)))])))
        for pn in ex.panics:
            bad.append(z3.And(*pn.cond) if pn.cond else z3.BoolVal(True))

        def on_cex(m, opname=opname):
            st = describe_state(m, pre)
            nat = ck.native()
            r = nat.ds(setup_script(st) + [opname, 'state'])
            return {'key': {'op': opname, 'kind': 'wrong-result'}, 'what': '%s misbehaves on %r' % (opname, st),
                    'reproduced': True, 'replay': {'pre_state': st, 'native': r}}
        ck.prove(opname, valid, z3.Not(z3.Or(*bad)), on_cex, lambda m, c: None)
        ck.cover(opname, list(valid) + [z3.And(*res[0].cond) if res[0].cond else z3.BoolVal(True)],
                 lambda m: {'op': opname, 'pre_state': describe_state(m, pre)})

    # ------------------------------------------------------------------ queries
    def do_query(qname, fn_name, args, arg_valid, spec, native_op_of, kind='bool'):
        ex = mk_executor(arg_valid)
        res = ex.explore(fn_name, [state_val] + list(args))
        ck.absorb(ex)
        bad = []
        covered = []
        for pr in res:
            bad.append(z3.And(*(pr.cond + [z3.Not(spec(pr.ret))])))
            covered.append(z3.And(*pr.cond) if pr.cond else z3.BoolVal(True))
        for pn in ex.panics:
            c = z3.And(*pn.cond) if pn.cond else z3.BoolVal(True)
            bad.append(c)
            covered.append(c)
        for bc in ex.bound_conds:
            covered.append(z3.And(*bc[0]) if bc[0] else z3.BoolVal(True))
        assm = list(valid) + list(arg_valid)
        r, _ = ck.solve(assm + [z3.Not(z3.Or(*covered))])
        if r != 'unsat':
            ck.inconclusive.append('paths of %s do not cover all valid states (%s)' % (qname, r))

        def on_cex(m):
            st = describe_state(m, pre)
            nat = ck.native()
            setup = setup_script(st)
            op = native_op_of(m)
            r1 = nat.ds(setup + [op])
            steps = r1['ok']['steps']
            last = steps[-1]
            info = {'pre_state': st, 'op': op, 'native': last}
            if 'panic' in last:
                rel = ck.native('release')
                r2 = rel.ds(setup + [op])
                rel.close()
                info['release'] = r2['ok']['steps'][-1] if 'ok' in r2 else r2
                return {'key': {'op': qname, 'kind': 'panic'}, 'what': '%s panics on builder %r: %s'
                        % (op, '0' * st['leading_zeroes'] + st['buffer'], last['panic']), 'reproduced': True,
                        'replay': info}
            # compare the native answer with the reference semantics evaluated on the model's state
            got = last['result']
            if op == 'state':
                got = last['state']['buffer' if qname == 'deref' else qname]
            if kind == 'str':
                from mirsym.strings import to_symstr
                gv = to_symstr(got)
            elif kind == 'bool':
                gv = z3.BoolVal(bool(got))
            elif kind == 'int':
                gv = K(int(got))
            else:
                gv = Seq(tuple(z3.BitVecVal(b, 8) for b in got), len(got), 'u8')
            holds = z3.is_true(m.eval(spec(gv), model_completion=True))
            return {'key': {'op': qname, 'kind': 'wrong-answer'}, 'what': '%s on builder %r answers %r'
                    % (op, '0' * st['leading_zeroes'] + st['buffer'], got), 'reproduced': not holds, 'replay': info}
        ck.prove(qname, assm, z3.Not(z3.Or(*bad)), on_cex, lambda m, c: None)
        ck.cover(qname, assm + [covered[0]], lambda m: {'query': native_op_of(m), 'pre_state': describe_state(m, pre)})

    kq = z3.BitVec('k', 64)
    kvalid = [z3.ULE(kq, N + 3)]

    def digit_at(posn):
        """pre-state digit at decimal position posn (symbolic), '0' if absent"""
        return z3.If(z3.ULT(posn, pre.ln), pre.cell(pre.ln - 1 - posn), z3.BitVecVal(48, 8))

    def spec_peek(ret):
        s = ret if isinstance(ret, Seq) else None
        if s is None:
            return z3.BoolVal(False)
        n = z3.If(z3.ULE(kq, pre.ln), kq, pre.ln)
        conds = [B64(s.len) == n]
        for i in range(s.cap):
            conds.append(z3.Implies(z3.ULT(K(i), n), B8(s.elems[i]) == pre.cell(pre.ln - n + i)))
        return z3.And(*conds)
    do_query('peek', ds_fn(ex0, 'peek'), [kq], kvalid, spec_peek, lambda m: 'peek:%d' % ev(m, kq), kind='bytes')

    def spec_is_free(ret):
        allz = z3.And(*[z3.Implies(z3.And(z3.ULT(K(j), kq), z3.ULT(K(j), pre.ln)), digit_at(K(j)) == 48)
                        for j in range(N + 3)])
        return ZB(ret) == z3.Or(z3.And(pre.ln == 0, pre.lz == 0), allz)
    do_query('is_free', ds_fn(ex0, 'is_free'), [kq], kvalid, spec_is_free, lambda m: 'is_free:%d' % ev(m, kq))

    a, b = z3.BitVec('a', 64), z3.BitVec('b', 64)

    def spec_range_free(ret):
        allz = z3.And(*[z3.Implies(z3.And(z3.ULE(a, K(j)), z3.ULE(K(j), b), z3.ULT(K(j), pre.ln)), digit_at(K(j)) == 48)
                        for j in range(N + 4)])
        return ZB(ret) == allz
    do_query('is_range_free', ds_fn(ex0, 'is_range_free'), [a, b], [z3.ULT(a, b), z3.ULE(b, N + 3)], spec_range_free,
             lambda m: 'is_range_free:%d:%d' % (ev(m, a), ev(m, b)))

    def spec_pos_free(ret):
        return ZB(ret) == z3.Or(z3.UGE(kq, pre.ln), digit_at(kq) == 48)
    do_query('is_position_free', ds_fn(ex0, 'is_position_free'), [kq], kvalid, spec_pos_free,
             lambda m: 'is_position_free:%d' % ev(m, kq))

    do_query('is_empty', ds_fn(ex0, 'is_empty'), [], [], lambda r: ZB(r) == z3.And(pre.ln == 0, pre.lz == 0),
             lambda m: 'state')
    do_query('is_null', ds_fn(ex0, 'is_null'), [], [], lambda r: ZB(r) == (pre.ln == 0), lambda m: 'state')
    do_query('len', ds_fn(ex0, 'len'), [], [], lambda r: B64(r) == pre.ln + pre.lz, lambda m: 'state', kind='int')
    do_query('is_ordinal', ds_fn(ex0, 'is_ordinal'), [], [], lambda r: ZB(r) == (pre.mdisc == 0), lambda m: 'state')

    def spec_deref(ret):
        s = ret
        conds = [B64(s.len) == pre.ln]
        for i in range(min(s.cap, cap)):
            conds.append(z3.Implies(z3.ULT(K(i), pre.ln), B8(s.elems[i]) == pre.cell(i)))
        return z3.And(*conds)
    do_query('deref', deref_fn(ex0), [], [], spec_deref, lambda m: 'state', kind='bytes')

    def spec_to_string(ret):
        from mirsym.strings import to_symstr
        s = to_symstr(ret).seq
        total = pre.ln + pre.lz
        conds = [B64(s.len) == total]
        for i in range(s.cap):
            exp = z3.If(z3.ULT(K(i), pre.lz), z3.BitVecVal(48, 8), pre.cell(K(i) - pre.lz))
            conds.append(z3.Implies(z3.ULT(K(i), total), z3.And(B8(s.elems[i]) == exp, is_digit(B8(s.elems[i])))))
        return z3.And(*conds)
    do_query('to_string', ds_fn(ex0, 'to_string'), [], [], spec_to_string, lambda m: 'state', kind='str')

    ck.states = ck.paths
    if not quick or os.environ.get('VERIF_KANI') == '1':
        from .c12_kani import run_kani
        run_kani(ck, bool(ck.violations))
    return ('One inductive step per public DigitString method from an arbitrary valid builder state (symbolic length '
            '<= %d, symbolic digits, zero counter, frozen bit, flags, marker): MIR of the method executed symbolically, '
            'result/post-state compared by z3 with the reference semantics written from the method documentation; every '
            'panic condition (overflow, index, slice length) is an obligation; the digit invariant is re-proved after '
            'every operation, so the claim extends to operation sequences of any length whose buffers stay within the '
            'bound.  Counterexamples are rebuilt through the public API in the native helper and replayed.' % N)

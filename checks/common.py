"""Shared infrastructure of the checks: MIR dump (regenerated from /repo's working tree), obligations,
vacuity witnesses, native replay, known findings, evidence files and exit codes.

Exit codes: 0 = every obligation discharged (or only listed known findings), 1 = replayed violation,
2 = inconclusive (unsupported MIR, solver timeout, vacuous obligation, encoding mismatch)."""
import hashlib
import json
import os
import shutil
import subprocess
import sys
import tempfile
import time
import traceback

import z3

VERIF = os.path.dirname(os.path.dirname(os.path.abspath(__file__)))
sys.path.insert(0, VERIF)
REPO = os.environ.get('VERIF_REPO', '/repo')

from mirsym.parse import Mir, MirUnsupported          # noqa: E402
from mirsym.resolve import Resolver                    # noqa: E402
from mirsym.core import Executor                       # noqa: E402
from mirsym.values import Unsupported                  # noqa: E402
from mirsym import native as native_mod               # noqa: E402

CACHE = os.path.join(VERIF, '.cache')


class Inconclusive(Exception):
    pass


def tree_hash():
    h = hashlib.sha256()
    files = []
    for root, dirs, fs in os.walk(os.path.join(REPO, 'src')):
        dirs.sort()
        for f in sorted(fs):
            files.append(os.path.join(root, f))
    for f in ('Cargo.toml', 'Cargo.lock'):
        p = os.path.join(REPO, f)
        if os.path.exists(p):
            files.append(p)
    for p in files:
        h.update(os.path.relpath(p, REPO).encode())
        h.update(b'\0')
        h.update(open(p, 'rb').read())
        h.update(b'\0')
    return h.hexdigest()[:24]


def dump_mir():
    """(mir_text, tree_hash).  The dump is made from a scratch copy of /repo's current working tree; the text is
    cached under /verif/.cache/<tree-hash>/ so the checks of one run share it."""
    th = tree_hash()
    d = os.path.join(CACHE, th)
    p = os.path.join(d, 'mir.txt')
    if os.path.exists(p):
        return open(p, encoding='utf-8').read(), th
    os.makedirs(d, exist_ok=True)
    scratch = tempfile.mkdtemp(prefix='t2n-mir-', dir=os.environ.get('VERIF_SCRATCH', '/tmp'))
    try:
        src = os.path.join(scratch, 'repo')
        shutil.copytree(REPO, src, ignore=shutil.ignore_patterns('target', '.git'))
        env = dict(os.environ)
        env['CARGO_NET_OFFLINE'] = 'true'
        env['CARGO_TARGET_DIR'] = os.path.join(scratch, 'target')
        env.pop('RUSTFLAGS', None)
        cmd = ['cargo', '+nightly', 'rustc', '--offline', '--lib', '--', '-Zunpretty=mir', '-C', 'overflow-checks=on',
               '-C', 'debug-assertions=on', '--cfg', 'text2num_verif']
        r = subprocess.run(cmd, cwd=src, env=env, capture_output=True, text=True)
        if r.returncode != 0 or not r.stdout.strip():
            raise Inconclusive('MIR dump failed:\n' + r.stderr[-3000:])
        tmp = p + '.tmp%d' % os.getpid()
        with open(tmp, 'w', encoding='utf-8') as f:
            f.write(r.stdout)
        os.replace(tmp, p)
        return r.stdout, th
    finally:
        shutil.rmtree(scratch, ignore_errors=True)
        # keep the cache small: drop dumps of other trees
        try:
            for other in os.listdir(CACHE):
                po = os.path.join(CACHE, other)
                if other != th and len(other) == 24 and time.time() - os.path.getmtime(po) > 6 * 3600:
                    shutil.rmtree(po, ignore_errors=True)
        except OSError:
            pass


_mir_cache = {}


def load_mir():
    if 'mir' not in _mir_cache:
        text, th = dump_mir()
        mir = Mir(text)
        res = Resolver(mir, REPO)
        _mir_cache['mir'] = (mir, res, th, hashlib.sha256(text.encode()).hexdigest()[:16])
    return _mir_cache['mir']


def new_executor(assumptions=(), cap=16, timeout_ms=20000):
    mir, res, th, mh = load_mir()
    ex = Executor(mir, res, assumptions, timeout_ms=timeout_ms)
    ex.cap = cap
    return ex


# ------------------------------------------------------------------------------------------------

def load_known_findings():
    p = os.path.join(VERIF, 'known_findings.json')
    if not os.path.exists(p):
        return []
    return json.load(open(p, encoding='utf-8'))


class Violation:
    def __init__(self, obligation, key, what, replay):
        self.obligation = obligation
        self.key = key
        self.what = what
        self.replay = replay


class Check:
    def __init__(self, pid, tier=None, seed=None):
        self.pid = pid
        self.tier = tier or os.environ.get('VERIF_TIER', 'quick')
        if self.tier not in ('quick', 'thorough'):
            self.tier = 'quick'
        self.seed = int(seed if seed is not None else os.environ.get('VERIF_SEED', '0') or 0)
        self.t0 = time.time()
        self.obligations = 0
        self.discharged = 0
        self.queries = 0
        self.solver_time = 0.0
        self.covers = 0
        self.covers_sat = 0
        self.samples = []
        self.replayed = 0
        self.violations = []
        self.known_hits = []
        self.inconclusive = []
        self.functions = set()
        self.intrinsics = set()
        self.paths = 0
        self.stmts = 0
        self.bounds = {}
        self.outside = []
        self.assumptions = []
        self.notes = []
        self.states = 0
        self.transitions = 0
        self.known = [k for k in load_known_findings() if k.get('property') == pid]
        self.query_timeout_ms = 60000 if self.tier == 'quick' else 900000
        self._native = None
        self.bound_cuts = 0
        self.per_lang = {}

    # -------------------------------------------------------------- native
    def native(self, profile='dev'):
        if profile == 'dev':
            if self._native is None:
                self._native = native_mod.Native('dev')
            return self._native
        return native_mod.Native(profile)

    # -------------------------------------------------------------- solver helpers
    def solve(self, constraints, timeout_ms=None):
        """-> ('sat', model) | ('unsat', None) | ('unknown', reason)"""
        s = z3.Solver()
        s.set('timeout', timeout_ms or self.query_timeout_ms)
        for c in constraints:
            if c is True:
                continue
            if c is False:
                return 'unsat', None
            s.add(c)
        t0 = time.time()
        r = s.check()
        self.solver_time += time.time() - t0
        self.queries += 1
        if r == z3.sat:
            return 'sat', s.model()
        if r == z3.unsat:
            return 'unsat', None
        return 'unknown', s.reason_unknown()

    def absorb(self, ex):
        """collect statistics of an executor"""
        self.functions |= ex.stats.functions
        self.intrinsics |= ex.stats.intrinsics
        self.paths += ex.stats.paths
        self.stmts += ex.stats.stmts
        self.queries += ex.stats.solver_checks
        self.solver_time += ex.stats.solver_time
        self.bound_cuts += ex.stats.bound_hits

    def cover(self, name, constraints, describe=None):
        """vacuity witness: the constraints must be satisfiable.  describe(model) -> sample"""
        self.covers += 1
        r, m = self.solve(constraints)
        if r == 'sat':
            self.covers_sat += 1
            if describe is not None and len(self.samples) < 40:
                try:
                    self.samples.append({'witness_of': name, 'case': describe(m)})
                except Exception as e:   # a sample is documentation; never fatal
                    self.samples.append({'witness_of': name, 'case': 'undescribed: %s' % e})
            return m
        if r == 'unsat':
            self.inconclusive.append('VACUOUS: reachability witness of %s is unsatisfiable' % name)
        else:
            self.inconclusive.append('TIMEOUT: reachability witness of %s: %s' % (name, m))
        return None

    def prove(self, name, assumptions, goal, on_cex, block=None, max_known=16):
        """Obligation: assumptions => goal.  on_cex(model) -> dict(key=..., what=..., reproduced=bool, replay=dict)
        block(model, cex) -> extra constraint excluding exactly the role of a known finding."""
        self.obligations += 1
        extra = []
        for _ in range(max_known + 1):
            r, m = self.solve(list(assumptions) + extra + [z3.Not(goal) if goal is not True else False])
            if r == 'unsat':
                self.discharged += 1
                return True
            if r == 'unknown':
                self.inconclusive.append('TIMEOUT: %s: %s' % (name, m))
                return False
            verdict, b_ = self._triage(name, m, on_cex, block)
            if verdict == 'block':
                extra.append(b_)
                continue
            if verdict == 'holds':
                self.discharged += 1
                return True
            return False
        self.inconclusive.append('too many known findings matched in ' + name)
        return False

    def _triage(self, name, m, on_cex, block):
        """replay a satisfying model: -> ('block', constraint) for a listed known finding whose role can be excluded,
        ('holds', None) for one whose role cannot be excluded, ('fail', None) after recording a violation / inconclusive"""
        try:
            cex = on_cex(m)
        except Inconclusive as e:
            self.inconclusive.append('ENCODING-MISMATCH: %s: %s' % (name, e))
            return 'fail', None
        self.replayed += 1
        if not cex.get('reproduced'):
            fired = cex.get('replay', {}).get('fired') if isinstance(cex.get('replay'), dict) else None
            self.inconclusive.append('ENCODING-MISMATCH: %s: model does not reproduce natively (fired: %s): %s'
                                     % (name, fired, json.dumps(cex.get('replay'), ensure_ascii=False)[:500]))
            return 'fail', None
        kf = self.match_known(cex['key'])
        if kf is not None and block is not None:
            msg = 'KNOWN-FINDING: property=%s %s' % (self.pid, kf.get('what', cex['what']))
            if msg not in self.known_hits:
                self.known_hits.append(msg)
                if not getattr(self, 'is_worker', False):
                    print(msg, flush=True)
            b = block(m, cex)
            if b is None:
                return 'holds', None
            return 'block', b
        self.violations.append(Violation(name, cex['key'], cex['what'], cex['replay']))
        return 'fail', None

    def prove_none(self, name, assumptions, labelled_bad, on_cex, block=None, case_split=None):
        """obligation: none of the labelled bad conditions is satisfiable under the assumptions.  The labels of the
        conditions that hold in a counterexample model are passed to on_cex as m.fired (and reported)."""
        exprs = [e for _, e in labelled_bad]
        if not exprs:
            self.obligations += 1
            self.discharged += 1
            return True
        goal = z3.Not(z3.Or(*exprs)) if len(exprs) > 1 else z3.Not(exprs[0])

        def wrapped(m):
            fired = [lab for lab, e in labelled_bad if z3.is_true(m.eval(e, model_completion=True))]
            try:
                cex = on_cex(m, fired)
            except TypeError:
                cex = on_cex(m)
            cex.setdefault('replay', {})
            if isinstance(cex['replay'], dict):
                cex['replay']['fired'] = fired[:6]
            return cex
        if len(exprs) > 24:
            # many path results: decide the disjunction quickly if possible, else one query per bad condition; a model that
            # matches a listed known finding adds its blocking constraint and the search goes on
            self.obligations += 1
            extra = []
            for _ in range(17):
                r, m = self.solve(list(assumptions) + extra + [z3.Or(*exprs)], timeout_ms=min(20000, self.query_timeout_ms))
                if r == 'unsat':
                    self.discharged += 1
                    return True
                if r == 'unknown':
                    undecided, hit = 0, None

                    def decide_one(e):
                        r1, m1 = self.solve(list(assumptions) + extra + [e])
                        if r1 == 'unknown' and case_split:
                            # hard condition: decide it case by case over an exhaustive split given by the check
                            # (a list of cases, or a list of levels: a case that stays undecided is refined by the next level)
                            levels = case_split if isinstance(case_split[0], (list, tuple)) else [case_split]
                            for lv in levels:
                                rx, _ = self.solve(list(assumptions) + [z3.Not(z3.Or(*lv))])
                                if rx != 'unsat':
                                    return 'unknown', None

                            def by_cases(prefix, depth):
                                for cs in levels[depth]:
                                    r2, m2 = self.solve(list(assumptions) + extra + prefix + [cs, e], timeout_ms=self.query_timeout_ms)
                                    if r2 == 'sat':
                                        return 'sat', m2
                                    if r2 == 'unknown':
                                        if depth + 1 < len(levels):
                                            r3, m3 = by_cases(prefix + [cs], depth + 1)
                                            if r3 != 'unsat':
                                                return r3, m3
                                        else:
                                            return 'unknown', None
                                return 'unsat', None
                            return by_cases([], 0)
                        elif r1 == 'unknown':
                            # the few hard conditions get a longer cap before they count as undecided
                            r1, m1 = self.solve(list(assumptions) + extra + [e], timeout_ms=6 * self.query_timeout_ms)
                        return r1, m1
                    # bisection: most conditions (panic sites, per-path assertions) fall in bulk
                    work = [exprs]
                    while work and hit is None:
                        chunk = work.pop()
                        if len(chunk) == 1:
                            r1, m1 = decide_one(chunk[0])
                        else:
                            r1, m1 = self.solve(list(assumptions) + extra + [z3.Or(*chunk)], timeout_ms=min(20000, self.query_timeout_ms))
                        if r1 == 'sat':
                            hit = m1
                        elif r1 == 'unknown':
                            if len(chunk) == 1:
                                undecided += 1
                            else:
                                h = len(chunk) // 2
                                work.append(chunk[h:])
                                work.append(chunk[:h])
                    if hit is None:
                        if undecided:
                            self.inconclusive.append('TIMEOUT: %s: %d of %d bad conditions undecided' % (name, undecided, len(exprs)))
                            return False
                        self.discharged += 1
                        return True
                    m = hit
                verdict, b_ = self._triage(name, m, wrapped, block)
                if verdict == 'block':
                    extra.append(b_)
                    continue
                if verdict == 'holds':
                    self.discharged += 1
                    return True
                return False
            self.inconclusive.append('too many known findings matched in ' + name)
            return False
        return self.prove(name, assumptions, goal, wrapped, block)

    def match_known(self, key):
        for k in self.known:
            if k.get('status', 'known') != 'known':
                continue
            kk = k.get('key', {})
            if all(key.get(a) == b for a, b in kk.items()):
                return k
        return None

    # -------------------------------------------------------------- sub-checks run in worker processes
    def export(self):
        """picklable summary of a (worker) check"""
        d = {k: getattr(self, k) for k in ('obligations', 'discharged', 'queries', 'solver_time', 'covers', 'covers_sat',
                                            'samples', 'replayed', 'known_hits', 'inconclusive', 'paths', 'stmts',
                                            'outside', 'assumptions', 'notes', 'states', 'transitions', 'bound_cuts',
                                            'per_lang', 'bounds')}
        d['functions'] = sorted(self.functions)
        d['intrinsics'] = sorted(self.intrinsics)
        d['violations'] = [(v.obligation, v.key, v.what, v.replay) for v in self.violations]
        return d

    def absorb_export(self, d):
        for k in ('obligations', 'discharged', 'queries', 'solver_time', 'covers', 'covers_sat', 'replayed', 'paths',
                  'stmts', 'states', 'transitions', 'bound_cuts'):
            setattr(self, k, getattr(self, k) + d[k])
        self.samples.extend(d['samples'])
        for m in d['known_hits']:
            if m not in self.known_hits:
                self.known_hits.append(m)
                print(m, flush=True)
        self.inconclusive.extend(d['inconclusive'])
        for k in ('outside', 'assumptions', 'notes'):
            for x in d[k]:
                if x not in getattr(self, k):
                    getattr(self, k).append(x)
        self.per_lang.update(d['per_lang'])
        self.bounds.update(d['bounds'])
        self.functions |= set(d['functions'])
        self.intrinsics |= set(d['intrinsics'])
        for o, k, w, r in d['violations']:
            self.violations.append(Violation(o, k, w, r))

    # -------------------------------------------------------------- finish
    def finish(self, level_explanation='', checker_cmd=None):
        wall = time.time() - self.t0
        evdir = os.environ.get('VERIF_EVIDENCE_DIR') or os.path.join(VERIF, 'evidence')
        os.makedirs(evdir, exist_ok=True)
        os.makedirs(os.path.join(VERIF, 'replays'), exist_ok=True)
        status = 0
        lines = []
        for v in self.violations:
            h = hashlib.sha256(json.dumps(v.replay, sort_keys=True, ensure_ascii=False).encode()).hexdigest()[:12]
            path = os.path.join(VERIF, 'replays', '%s-%s.json' % (self.pid, h))
            with open(path, 'w', encoding='utf-8') as f:
                json.dump({'property': self.pid, 'obligation': v.obligation, 'key': v.key, 'what': v.what,
                           'replay': v.replay}, f, ensure_ascii=False, indent=1)
            lines.append('VIOLATION property=%s replay=%s' % (self.pid, path))
            print('  violated obligation %s: %s' % (v.obligation, v.what), flush=True)
            status = 1
        if status == 0 and self.inconclusive:
            status = 2
        mir, res, th, mh = load_mir()
        if os.environ.get('VERIF_THOROUGH_FALLBACK') == '1':
            self.notes.append('thorough tier requested: the deeper bounds of this property were not validated within the time '
                              'available (DESIGN.md 11.9), so the quick bounds were decided again')
        if not self.samples:
            self.samples.append({'note': 'no witness sample recorded'})
        cov = {
            'obligations': self.obligations,
            'discharged': self.discharged,
            'checker_cmd': checker_cmd or ('./check %s --tier %s' % (self.pid, self.tier)),
            'trusted_base': sorted(self.intrinsics) + ['z3 %s' % z3.get_version_string(), 'rustc nightly MIR printer',
                                                        'mirsym executor', 'reference oracles in /verif/oracle'],
            'evaluations': self.queries,
            'distinct_nontrivial': self.covers_sat,
            'rule': 'evaluations = solver queries (feasibility checks of symbolic branches + obligation/witness '
                    'queries); distinct_nontrivial = reachability witnesses (twins of obligations) that are SAT, '
                    'each a distinct obligation or path class that is actually reachable',
            'samples': self.samples[:40],
            'states': max(1, self.paths),
            'transitions': max(1, self.stmts),
            'traces_validated_against_impl': self.replayed,
            'explanation': level_explanation,
            'functions_encoded': sorted(self.functions),
            'bounds': self.bounds,
            'outside_bounds': self.outside,
            'paths_explored': self.paths,
            'mir_statements_executed': self.stmts,
            'paths_cut_at_bounds': self.bound_cuts,
            'solver_time_s': round(self.solver_time, 2),
            'solvers': ['z3 ' + z3.get_version_string()],
            'mir_hash': mh,
            'tree_hash': th,
            'known_findings_hit': self.known_hits,
            'inconclusive': self.inconclusive,
            'per_language': self.per_lang,
            'notes': self.notes,
            'exhaustive': False,
        }
        ev = {
            'property_id': self.pid,
            'tier': self.tier,
            'seed': self.seed,
            'level': 'model_checking',
            'coverage': cov,
            'assumptions': self.assumptions,
            'wall_s': round(wall, 2),
            'violations': len(self.violations),
        }
        with open(os.path.join(evdir, '%s.json' % self.pid), 'w', encoding='utf-8') as f:
            json.dump(ev, f, ensure_ascii=False, indent=1)
        for ln in lines:
            print(ln, flush=True)
        for m in self.inconclusive:
            print('INCONCLUSIVE: ' + m, flush=True)
        print('%s %s: %d/%d obligations discharged, %d witnesses, %d queries, %.1fs solver, %.1fs wall -> exit %d'
              % (self.pid, self.tier, self.discharged, self.obligations, self.covers_sat, self.queries,
                 self.solver_time, wall, status), flush=True)
        if self._native is not None:
            self._native.close()
        return status


def run_parallel(ck, worker, jobs, nproc=None):
    """run worker(job, tier, seed, pid) -> export dict in a process pool and absorb the results in job order"""
    import multiprocessing as mp
    nproc = nproc or min(len(jobs), int(os.environ.get('VERIF_JOBS', '0') or 0) or (os.cpu_count() or 4))
    load_mir()           # parse once before forking
    native_mod.build('dev')
    ctx = mp.get_context('fork')
    with ctx.Pool(nproc) as pool:
        results = [pool.apply_async(_guarded_worker, (worker, j, ck.tier, ck.seed, ck.pid)) for j in jobs]
        for j, r in zip(jobs, results):
            d = r.get()
            ck.absorb_export(d)


def _guarded_worker(worker, job, tier, seed, pid):
    sub = Check(pid, tier, seed)
    sub.is_worker = True
    t0_ = time.time()
    try:
        worker(sub, job)
    except (Unsupported, MirUnsupported, Inconclusive) as e:
        sub.inconclusive.append('%s [%s]: %s' % (type(e).__name__, job, e))
        traceback.print_exc()
    except Exception as e:       # a crash of the machinery is inconclusive, never a pass
        sub.inconclusive.append('CRASH [%s]: %s: %s' % (job, type(e).__name__, e))
        traceback.print_exc()
    if sub._native is not None:
        sub._native.close()
    sys.stderr.write('[job %s %s: %.0fs]\n' % (pid, job, time.time() - t0_))
    sys.stderr.flush()
    return sub.export()


def run_check(pid, fn, tier=None):
    ck = Check(pid, tier)
    try:
        expl = fn(ck)
    except (Unsupported, MirUnsupported, Inconclusive) as e:
        ck.inconclusive.append('%s: %s' % (type(e).__name__, e))
        traceback.print_exc()
        expl = 'aborted: ' + str(e)
    except Exception as e:
        ck.inconclusive.append('CRASH: %s: %s' % (type(e).__name__, e))
        traceback.print_exc()
        expl = 'aborted: ' + str(e)
    return ck.finish(expl or '')

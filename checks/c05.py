"""C05 Decimal round-trip: integer part, separator word, fractional part become one decimal numeral."""
import z3
from .common import Check, run_parallel, Inconclusive
from .spelled import *
from .c16 import zeros_decimal_matches, text_is
from oracle.langs import LANGS
from mirsym.strings import F64Dec, to_symstr

DIGITWISE = ('en', 'de')


def byte(seq, i):
    e = seq.elems[i]
    return bv(e, 8) if is_sym(e) else z3.BitVecVal(e, 8)


def worker(ck: Check, code):
    L = LANGS[code]
    quick = ck.tier == 'quick'
    idom = 'low3' if quick else 'low6'
    fmax = 3 if quick else 6
    digs = Digits(12, 'i')
    f = L.flags()
    assm = digs.domain(idom) + list(L.side_constraints(digs, f))
    islots = L.cardinal_slots(digs, f)
    sep_slot = [[(True, L.decimal_sep)]]
    mark = L.decimal_mark.encode('utf-8')[0]
    # ---------------------------------------------------------------- the fractional part
    if code in DIGITWISE:
        F = [z3.BitVec('frac%d' % j, 8) for j in range(fmax)]
        fl = z3.BitVec('fraclen', 8)
        assm += [z3.ULE(d, 9) for d in F] + [z3.UGE(fl, 1), z3.ULE(fl, fmax)]
        dw = L.digit_words()
        fslots = [[(z3.And(z3.UGT(fl, j), F[j] == v), dw[v]) for v in range(10)] + [(z3.ULE(fl, j), None)] for j in range(fmax)]

        def frac_cell(j):
            return F[j] + 48 if j < fmax else z3.BitVecVal(48, 8)
        frac_len = z3.ZeroExt(56, fl)

        def frac_concrete(m):
            n = m.eval(fl, model_completion=True).as_long()
            return ''.join(str(m.eval(F[j], model_completion=True).as_long()) for j in range(n))
        extra_flags = {}
    else:
        # k zeros followed by the spelling of the remaining digits as one number m (or the zeros alone)
        fd = Digits(12, 'f')
        ff = {k: z3.Bool('f_' + str(v)) for k, v in L.flags().items()}
        z = z3.BitVec('fzeros', 8)
        has_m = z3.Bool('frac_has_number')
        mdom = 'low2' if quick else 'low3'
        assm += fd.domain(mdom) + list(L.side_constraints(fd, ff)) + [z3.ULE(z, 2 if quick else 3)]
        assm += [z3.Implies(has_m, z3.Not(fd.is_zero())), z3.Implies(z3.Not(has_m), z3.And(fd.is_zero(), z3.UGE(z, 1)))]
        zslots = [[(z3.UGT(z, j), L.zero), (z3.ULE(z, j), None)] for j in range(3)]
        mslots = [[(AND(has_m, c), w) if w is not None else (OR(NOT(has_m), c), None) for c, w in alts]
                  for alts in L.cardinal_slots(fd, ff)[1:]]
        fslots = zslots + mslots
        mlen = z3.If(has_m, fd.sig_len(), z3.BitVecVal(0, 64))
        frac_len = z3.ZeroExt(56, z) + mlen

        def frac_cell(j):
            res = z3.BitVecVal(48, 8)
            for zv in range(0, 4):
                if j - zv >= 0:
                    res = z3.If(z == zv, fd.decimal_cell(j - zv, fd.sig_len()), res)
            return z3.If(z3.ULT(z3.BitVecVal(j, 8), z), z3.BitVecVal(48, 8), res)

        def frac_concrete(m):
            s = '0' * m.eval(z, model_completion=True).as_long()
            if z3.is_true(m.eval(has_m, model_completion=True)):
                s += str(fd.value_of(m))
            return s
    slots = islots + sep_slot + fslots
    words_of = lambda m: concrete_phrase(slots, m)
    expect = lambda m: '%d%s%s' % (digs.value_of(m), L.decimal_mark, frac_concrete(m))
    IL = digs.sig_len()

    def text_ok(text):
        if isinstance(text, Choice):
            return z3.Or(*[z3.And(ZB(c), text_ok(v)) for c, v in text.alts])
        s = to_symstr(text).seq
        total = IL + 1 + frac_len
        conds = [B64(s.len) == total]
        for i in range(s.cap):
            exp = digs.decimal_cell(i, IL)
            for a in range(1, 13):
                # integer part has a digits: mark at index a, fraction cell i-a-1
                if i == a:
                    exp = z3.If(IL == a, z3.BitVecVal(mark, 8), exp)
                elif i > a:
                    exp = z3.If(IL == a, frac_cell(i - a - 1), exp)
            conds.append(z3.Implies(z3.ULT(z3.BitVecVal(i, 64), total), byte(s, i) == exp))
        return z3.And(*conds)

    def value_ok(val):
        if isinstance(val, Choice):
            return z3.Or(*[z3.And(ZB(c), value_ok(v)) for c, v in val.alts])
        if not isinstance(val, F64Dec):
            return z3.BoolVal(False)
        a, b = val.int_src, val.frac_src
        conds = [decimal_matches(SymStr(a), digs), B64(b.len) == frac_len]
        for j in range(b.cap):
            conds.append(z3.Implies(z3.ULT(z3.BitVecVal(j, 64), frac_len), byte(b, j) == frac_cell(j)))
        return z3.And(*conds)

    tslots, nwords, ne = token_slots(slots)
    ex = make_executor(ck, assm)
    res = run_scanner(ck, ex, L, tslots, 0.0)
    ck.absorb(ex)
    bad, oks = [], []
    for r in res:
        v = r.ret
        good = z3.BoolVal(False)
        if isinstance(v, Seq) and v.cap >= 1:
            st, en, text, val, isord = v.elems[0].fields
            good = z3.And(B64(v.len) == 1, B64(st) == 0, B64(en) == 2 * nwords - 1, text_ok(text), value_ok(val), z3.Not(ZB(isord)))
        bad.append(('wrong result', z3.And(pc(r), z3.Not(good))))
        oks.append(z3.And(pc(r), good))
    bad += [('panic: %s %s at %s' % (p.kind, p.msg, p.where), c) for p, c in zip(ex.panics, conds_of(ex.panics))]

    def on_cex(m, fired=None):
        toks = concrete_tokens(tslots, m)
        want = expect(m)
        nat = ck.native()
        r = nat.find(code, [tok_tuple(t, m) for t in toks], 0.0)
        rep = {'lang': code, 'tokens': [t.text for t in toks], 'expected': want, 'native': r.get('ok', r)}
        good = False
        if 'ok' in r:
            occs = [native_occ(o) for o in r['ok']['batch']]
            good = (len(occs) == 1 and occs[0]['text'] == want and occs[0]['value'] == float(want.replace(L.decimal_mark, '.'))
                    and not occs[0]['is_ordinal'] and occs[0]['start'] == 0 and occs[0]['end'] == len(toks))
        if good:
            return {'key': {}, 'what': '', 'reproduced': False, 'replay': rep}
        cw = culprit_word(nat, code, [w for w in words_of(m) if w != L.decimal_sep], skip=(L.conj,))
        return {'key': {'lang': code, 'word': cw, 'kind': 'decimal'}, 'reproduced': True, 'replay': rep, 'culprit': cw,
                'what': '%s: %r gives %s, expected the single decimal %s' % (
                    code, ''.join(t.text for t in toks), [(o['text'], o['value']['repr']) for o in r.get('ok', {}).get('batch', [])], want)}

    def block(m, cex):
        return block_word([slots], cex['culprit']) if cex.get('culprit') else None
    ck.prove_none('%s:decimal' % code, assm, bad, on_cex, block)
    ck.cover('%s:decimal:ok' % code, assm + [z3.Or(*oks)] if oks else [False],
             lambda m: {'lang': code, 'tokens': [t.text for t in concrete_tokens(tslots, m)], 'expected': expect(m)})

    # ---------------------------------------------------------------- a separator with no number before / nothing after
    for shape, sl in (('sep-first', sep_slot + islots), ('sep-last', islots + sep_slot)):
        assm2 = digs.domain(idom) + list(L.side_constraints(digs, f)) + [z3.Not(digs.is_zero())]
        ts, nw, _ = token_slots(sl)
        ex2 = make_executor(ck, assm2)
        res2 = run_scanner(ck, ex2, L, ts, 0.0)
        ck.absorb(ex2)
        bad2, ok2 = [], []
        for r in res2:
            v = r.ret
            good = z3.BoolVal(False)
            if isinstance(v, Seq) and v.cap >= 1:
                st, en, text, val, isord = v.elems[0].fields
                if shape == 'sep-first':
                    span = z3.And(B64(st) == 2, B64(en) == 2 * nw - 1)
                else:
                    span = z3.And(B64(st) == 0, B64(en) == 2 * nw - 3)
                good = z3.And(B64(v.len) == 1, span, decimal_matches(text, digs), z3.Not(ZB(isord)))
            bad2.append(('wrong result', z3.And(pc(r), z3.Not(good))))
            ok2.append(z3.And(pc(r), good))
        bad2 += [('panic: %s %s at %s' % (p.kind, p.msg, p.where), c) for p, c in zip(ex2.panics, conds_of(ex2.panics))]

        def on_cex2(m, fired=None, ts=ts, shape=shape):
            toks = concrete_tokens(ts, m)
            n = digs.value_of(m)
            nat = ck.native()
            r = nat.find(code, [tok_tuple(t, m) for t in toks], 0.0)
            rep = {'lang': code, 'tokens': [t.text for t in toks], 'expected': str(n), 'native': r.get('ok', r)}
            good = False
            if 'ok' in r:
                occs = [native_occ(o) for o in r['ok']['batch']]
                want_span = (2, len(toks)) if shape == 'sep-first' else (0, len(toks) - 2)
                good = len(occs) == 1 and occs[0]['text'] == str(n) and (occs[0]['start'], occs[0]['end']) == want_span
            if good:
                return {'key': {}, 'what': '', 'reproduced': False, 'replay': rep}
            cw = culprit_word(nat, code, [w for w in concrete_phrase(sl, m) if w != L.decimal_sep], skip=(L.conj,))
            return {'key': {'lang': code, 'word': cw, 'kind': shape}, 'reproduced': True, 'replay': rep, 'culprit': cw,
                    'what': '%s: %r gives %s, expected the number %d alone with the separator word left as a word' % (
                        code, ''.join(t.text for t in toks), [(o['text'], o['start'], o['end']) for o in r.get('ok', {}).get('batch', [])], n)}
        ck.prove_none('%s:%s' % (code, shape), assm2, bad2, on_cex2, lambda m, c: block_word([sl], c['culprit']) if c.get('culprit') else None)
        ck.cover('%s:%s:ok' % (code, shape), assm2 + [z3.Or(*ok2)] if ok2 else [False],
                 lambda m, ts=ts: {'lang': code, 'tokens': [t.text for t in concrete_tokens(ts, m)]})
    ck.bounds['%s_integer_part' % code] = idom
    ck.bounds['%s_fraction' % code] = ('1..%d dictated digits' % fmax) if code in DIGITWISE else \
        ('up to %d zeros + a number below %s, or zeros alone' % (2 if quick else 3, '100' if quick else '1000'))


def run(ck: Check):
    import os
    langs = list(LANGS)
    only = os.environ.get('VERIF_LANGS')
    if only:
        langs = [c for c in langs if c in only.split(',')]
    run_parallel(ck, worker, langs)
    ck.outside += ['integer parts >= 10^%d' % (3 if ck.tier == 'quick' else 6), 'longer fractional parts', 'en "o"/"nought" as '
                   'fractional digit words', 'a separator followed by a separator']
    return ('Digits of the integer part, the fractional digits / leading zeros and the orthographic flags are solver variables; '
            'the phrase "int sep frac" built by the reference spellers is scanned from MIR (threshold 0); z3 decides that the '
            'result is the single numeral int<mark>frac with every fractional digit kept and with the value of that decimal; '
            'a separator word without a number before it, or with nothing after it, stays a word.')

"""C07 Scanner and validator agree; at threshold 0 no number is left spelled out."""
import z3
from .common import Check, run_parallel, Inconclusive
from .stream import *
from .c14 import values_equal
from oracle.langs import LANGS
from mirsym.strings import F64Exact, F64Recip, F64Dec, to_symstr


def phrase_slots(st, i, j):
    """word slots i..j (inclusive) of the stream as validator slots"""
    return [[(st.w[x] == idx, r) for idx, r in enumerate(st.reps)] for x in range(i, j + 1)]


def worker(ck: Check, code):
    L = LANGS[code]
    quick = ck.tier == 'quick'
    k = 3 if quick else 4
    reps, classes = stream_alphabet(ck, code, quick)
    # phrases: words separated by single spaces (what text2digits sees after split_whitespace)
    st = Stream(code, reps, k, seps=[' '])
    ex = make_executor(ck, st.assm)
    ex.shape_ignore = {'Occurence'}
    rs = run_scanner(ck, ex, L, st.slots, 0.0)
    ck.absorb(ex)
    cov = []
    S = merged(cov, rs)
    n = B64(S.len)
    occs = [o.fields for o in S.elems if o is not UNINIT and o is not None]
    bad = [('scanner panic: %s %s at %s' % (p.kind, p.msg, p.where), c) for p, c in zip(ex.panics, conds_of(ex.panics))]
    V = {}
    for i in range(k):
        for j in range(i, k):
            exv = make_executor(ck, st.assm)
            rv = run_validator(ck, exv, L, phrase_slots(st, i, j))
            ck.absorb(exv)
            V[(i, j)] = merged(cov, rv)
            bad += [('validator panic on words %d..%d: %s %s' % (i, j, p.kind, p.msg), c)
                    for p, c in zip(exv.panics, conds_of(exv.panics))]
    # (a) every non-decimal occurrence validates to its own text
    for x, o in enumerate(occs):
        is_decimal = isinstance(o[3], F64Dec)
        dec_cond = z3.BoolVal(False)
        if isinstance(o[3], Choice):
            # merged value of several kinds: decimal under the conditions of its decimal alternatives
            dcs = [ZB(c) if not isinstance(c, bool) else z3.BoolVal(c) for c, v_ in o[3].alts if isinstance(v_, F64Dec)]
            dec_cond = z3.Or(*dcs) if dcs else z3.BoolVal(False)
        for i in range(k):
            for j in range(i, k):
                v = V[(i, j)]
                span = z3.And(z3.UGT(n, x), B64(o[0]) == 2 * i, B64(o[1]) == 2 * j + 1)
                okp = v.payload(0)
                same = z3.And(B64(v.disc) == 0, values_equal(okp[0], o[2])) if okp is not None else z3.BoolVal(False)
                if is_decimal:
                    continue
                bad.append(('occurrence over words %d..%d does not validate to its own text' % (i, j),
                            z3.And(span, z3.Not(dec_cond), z3.Not(same))))
    # (b) whatever the validator accepts is seen by the scanner as exactly one number with the same digits
    full = V[(0, k - 1)]
    okp = full.payload(0)
    if okp is not None and occs:
        o = occs[0]
        # the statement asks for exactly one number with the same digits (a leading conjunction the validator skips may
        # stay outside the span)
        one = z3.And(n == 1, values_equal(okp[0], o[2]))
        bad.append(('phrase accepted by the validator is not one occurrence with the same digits in the scanner',
                    z3.And(B64(full.disc) == 0, z3.Not(one))))
    elif okp is not None:
        bad.append(('phrase accepted by the validator but the scanner finds nothing', B64(full.disc) == 0))
    # (c) at threshold 0 every word that is a valid number on its own lies inside some occurrence
    for i in range(k):
        covered = z3.Or(*[z3.And(z3.UGT(n, x), z3.ULE(B64(o[0]), 2 * i), z3.UGT(B64(o[1]), 2 * i)) for x, o in enumerate(occs)]) \
            if occs else z3.BoolVal(False)
        bad.append(('word %d is a valid number on its own but lies outside every occurrence at threshold 0' % i,
                    z3.And(B64(V[(i, i)].disc) == 0, z3.Not(covered))))

    def on_cex(m, fired=None):
        toks = st.concrete(m)
        words = [t[0] for t in toks[::2]]
        nat = ck.native()
        r = nat.find(code, toks, 0.0)
        rep = {'lang': code, 'words': words, 'scanner': r.get('ok', r)}
        if 'ok' not in r:
            return {'key': {'lang': code, 'kind': 'panic'}, 'reproduced': True, 'replay': rep, 'what': 'scanner panics on %r' % words}
        occs_n = [native_occ(o) for o in r['ok']['batch']]
        problems = []
        mark = LANGS[code].decimal_mark
        for o in occs_n:
            if o['start'] % 2 or not o['end'] % 2:
                continue
            ws = words[o['start'] // 2:(o['end'] + 1) // 2]
            v = nat.t2d(code, ' '.join(ws))
            rep.setdefault('validations', []).append({'words': ws, 'result': v.get('ok', v)})
            got = v.get('ok', {}).get('Ok') if 'ok' in v else None
            if mark in o['text'] and got != o['text']:
                continue       # decimal occurrences are outside this clause
            if got != o['text']:
                problems.append(('span-differs', 'scanner reports %r over the words %r but validating those words gives %r'
                                 % (o['text'], ws, v.get('ok', v))))
        vfull = nat.t2d(code, ' '.join(words))
        rep['validate_all'] = vfull.get('ok', vfull)
        if 'ok' in vfull and 'Ok' in vfull['ok']:
            if not (len(occs_n) == 1 and occs_n[0]['text'] == vfull['ok']['Ok']):
                problems.append(('valid-not-one', 'validator accepts %r as %r but the scanner gives %r'
                                 % (words, vfull['ok']['Ok'], [(o['start'], o['end'], o['text']) for o in occs_n])))
        for i, w in enumerate(words):
            v1 = nat.t2d(code, w)
            if 'ok' in v1 and 'Ok' in v1['ok'] and not any(o['start'] <= 2 * i < o['end'] for o in occs_n):
                problems.append(('left-out', 'word %r validates to %r on its own but is in no occurrence at threshold 0' % (w, v1['ok']['Ok'])))
        return {'key': {'lang': code, 'kind': problems[0][0] if problems else ''}, 'reproduced': bool(problems), 'replay': rep,
                'what': '%s: %s' % (code, '; '.join(p[1] for p in problems[:2]))}
    ck.prove_none('%s:agree' % code, st.assm, guard(cov, bad), on_cex, lambda m, c: None)
    ck.cover('%s:agree:valid-phrase' % code, st.assm + [B64(full.disc) == 0], lambda m: {'lang': code, 'words': [t[0] for t in st.concrete(m)[::2]]})
    ck.cover('%s:agree:two-numbers' % code, st.assm + [z3.UGE(n, 2)], lambda m: {'lang': code, 'words': [t[0] for t in st.concrete(m)[::2]]})
    ck.bounds['phrase_words'] = k
    ck.per_lang[code] = {'behaviour_classes_used': len(reps)}


def run(ck: Check):
    import os
    langs = list(LANGS)
    only = os.environ.get('VERIF_LANGS')
    if only:
        langs = [c for c in langs if c in only.split(',')]
    run_parallel(ck, worker, langs)
    ck.outside += ['phrases of more than %d words' % (3 if ck.tier == 'quick' else 4), 'separators other than single spaces between the words',
                   'words outside the alphabet whose behaviour differs from every behaviour class used']
    return ('For every phrase of k solver-chosen words the scanner (threshold 0) and the validator (on the whole phrase and on '
            'every sub-span of words) are executed from MIR on the same symbolic words; z3 decides that each non-decimal '
            'occurrence validates to its own text, that an accepted phrase is exactly one occurrence with the same digits, and '
            'that no word that validates on its own is left outside every occurrence.')

"""C10 Context independence: unrelated parts of a text are converted independently."""
import z3
from .common import Check, run_parallel, Inconclusive
from .textlevel import *
from mirsym import strings
from oracle.langs import LANGS, CORE_WORDS

SEP_WORDS = ['lorem', 'ipsum', 'dolor']
EXTRA = {'fr': ['le', 'du', "l'", 'numéro', 'neuf'], 'en': ['o']}
FR_SMALL = ['le', 'du', 'vingt', 'cent', 'neuf', 'numéro', 'xyz', 'deux']
FR_TINY = ['le', 'vingt', 'cent', 'neuf', 'xyz']
EN_SMALL = ['zero', 'one', 'twenty', 'hundred', 'million', 'and', 'point', 'first', 'o', 'xyz', 'ah']
INNER_SEPS = [' ', ', ']


def worker(ck: Check, job):
    code, thr = job
    L = LANGS[code]
    import os
    tiny = ck.tier == 'quick'
    quick = not os.environ.get('VERIF_DEEP')
    if code == 'fr':
        k = 3
        reps = list(FR_TINY if tiny else FR_SMALL)
    else:
        k = 2 if quick else 3
        reps, classes = stream_alphabet(ck, code, True)
        reps = [r for r in reps if H._wordlike(r)] + [x for x in EXTRA.get(code, []) if x not in reps]
        if tiny:
            from oracle.langs import QUICK_WORDS
            reps = [w_ for w_ in QUICK_WORDS[code]]
        elif code == 'en' and quick:
            # the annotator forks on every neighbour of 'o': the 'o' rule is C18's subject, the quick tier leaves it out here
            reps = [r for r in reps if r in EN_SMALL and r != 'o']
    # the separator words must be ordinary words of the language
    exq = new_executor()
    lang = H.lang_value(exq, L.type_name)
    from .stream import interpreter_fns
    fns = interpreter_fns(exq, L)
    for sw in SEP_WORDS:
        r1 = exq.explore(fns['is_linking'], [lang, sw])
        r2 = exq.explore('text2digits', [sw, lang])
        if not (len(r1) == 1 and r1[0].ret is False and len(r2) == 1 and concrete_int(r2[0].ret.disc) == 1):
            raise Inconclusive('%r is not an ordinary word in %s' % (sw, code))
    wa = [z3.BitVec('a_w%d' % i, 16) for i in range(k)]
    wb = [z3.BitVec('b_w%d' % i, 16) for i in range(k)]
    inner_seps = [' '] if code == 'fr' else INNER_SEPS
    sa = [z3.BitVec('a_s%d' % i, 8) for i in range(k - 1)]
    sb = [z3.BitVec('b_s%d' % i, 8) for i in range(k - 1)]
    assm = [z3.ULT(x, len(reps)) for x in wa + wb] + [z3.ULT(x, len(inner_seps)) for x in sa + sb]
    A_w = [[(wa[i] == j, r) for j, r in enumerate(reps)] for i in range(k)]
    B_w = [[(wb[i] == j, r) for j, r in enumerate(reps)] for i in range(k)]
    A_s = [[(sa[i] == j, r) for j, r in enumerate(inner_seps)] for i in range(k - 1)]
    B_s = [[(sb[i] == j, r) for j, r in enumerate(inner_seps)] for i in range(k - 1)]
    fixed = lambda t: [(True, t)]
    S_words = [fixed(x) for x in SEP_WORDS]
    S_seps_in = [fixed(' '), fixed(' ')]
    TA = parts_text(A_w, A_s)
    TB = parts_text(B_w, B_s)
    TASB = parts_text(A_w + S_words + B_w, A_s + [fixed(' ')] + S_seps_in + [fixed('. ')] + B_s)
    offset = (2 * k - 1) + 1 + (2 * len(SEP_WORDS) - 1) + 1          # tokens before B in A S B
    name = '%s:thr=%s' % (code, thr)
    res = {}
    bad = []
    cov = []
    for label, txt in (('A', TA), ('B', TB), ('ASB', TASB)):
        ex = text_executor(ck, assm)
        res[label] = merged_occs(text_find(ex, L, txt, thr), cov)
        ck.absorb(ex)
        bad += [('panic (%s): %s %s at %s' % (label, p.kind, p.msg, p.where), c) for p, c in zip(ex.panics, conds_of(ex.panics))]
    OA, OB, OX = res['A'], res['B'], res['ASB']
    from .c14 import values_equal
    nA, nB, nX = B64(OA.len), B64(OB.len), B64(OX.len)
    ea = [o.fields for o in OA.elems if o is not UNINIT and o is not None]
    eb = [o.fields for o in OB.elems if o is not UNINIT and o is not None]
    ex_ = [o.fields for o in OX.elems if o is not UNINIT and o is not None]

    def same(fa, fb, shift):
        return z3.And(B64(fa[0]) == B64(fb[0]) + shift, B64(fa[1]) == B64(fb[1]) + shift, values_equal(fa[2], fb[2]),
                      ZB(fa[4]) == ZB(fb[4]))
    conds = [nX == nA + nB]
    for j, fx in enumerate(ex_):
        for a in range(len(ea) + 1):
            if j < a:
                if j < len(ea):
                    conds.append(z3.Implies(z3.And(nA == a, z3.UGT(nX, j)), same(fx, ea[j], 0)))
            else:
                i = j - a
                if i < len(eb):
                    conds.append(z3.Implies(z3.And(nA == a, z3.UGT(nX, j)), same(fx, eb[i], offset)))
                else:
                    conds.append(z3.Implies(nA == a, z3.ULE(nX, j)))
    bad.append(('the rewriting of "A S B" is not the rewriting of A, S, and the rewriting of B', z3.Not(z3.And(*conds))))

    def on_cex(m, fired=None):
        nat = ck.native()
        ta, _ = concrete_text(TA, m)
        tb, _ = concrete_text(TB, m)
        tx, _ = concrete_text(TASB, m)
        sep = tx[len(ta):len(tx) - len(tb)]
        ra, rb, rx = nat.replace(code, ta, thr), nat.replace(code, tb, thr), nat.replace(code, tx, thr)
        rep = {'lang': code, 'threshold': thr, 'A': ta, 'B': tb, 'A S B': tx, 'rewrite_A': ra.get('ok', ra), 'rewrite_B': rb.get('ok', rb),
               'rewrite_ASB': rx.get('ok', rx)}
        differs = not ('ok' in ra and 'ok' in rb and 'ok' in rx and rx['ok'] == ra['ok'] + sep + rb['ok'])
        return {'key': {'lang': code, 'kind': 'context'}, 'reproduced': differs, 'replay': rep,
                'what': '%s thr=%s: rewrite(%r) = %r but rewrite(A) S rewrite(B) = %r' % (
                    code, thr, tx, rx.get('ok'), (ra.get('ok') or '') + sep + (rb.get('ok') or ''))}
    ck.prove_none(name, assm, guard(cov, bad), on_cex, lambda m, c: None)
    ck.cover(name + ':numbers-on-both-sides', assm + [z3.UGE(nA, 1), z3.UGE(nB, 1)], lambda m: {'lang': code, 'text': concrete_text(TASB, m)[0]})
    ck.bounds['%s_words_per_part' % code] = k
    ck.per_lang[code] = {'words_used': len(reps)}


def run(ck: Check):
    import os
    langs = list(LANGS)
    only = os.environ.get('VERIF_LANGS')
    if only:
        langs = [c for c in langs if c in only.split(',')]
    import os
    deep = bool(os.environ.get('VERIF_DEEP'))
    jobs = [(c, 10.0) for c in langs] + [(c, 0.0) for c in langs if deep or c in ('fr', 'en')]
    run_parallel(ck, worker, jobs)
    ck.outside += ['parts A, B longer than 2 words (3 for French, 3 in the thorough tier)', "quick: English texts containing the word 'o' (C18) and English words beyond one per role", 'separators other than " lorem ipsum dolor. "',
                   'French: alphabet reduced to the trigger words of the ambiguity rule and a few number words']
    ck.assumptions.append('the tokenizer cuts the texts at the part boundaries (C02)')
    return ('Texts A, B of solver-chosen words and the text "A lorem ipsum dolor. B" are pushed through '
            'tokenize/basic_annotate/find_numbers from MIR; z3 decides that the occurrences of the joined text are those of A '
            'followed by those of B shifted by the number of tokens before B.')

"""Alphabets of words per language, regenerated from the MIR on every run: every string literal that the language's
interpreter compares a word with, the entries of its INSIGNIFICANT set, inflected surface forms, the words the reference
spellers emit, and representatives of the non-vocabulary token classes."""
from mirsym.parse import Const, Use, RAgg, Assign, ROp, RCast

SUFFIXES = {'en': ['s'], 'fr': ['s'], 'es': ['s', 'es'], 'pt': ['a', 'o', 'as', 'os', 's'], 'it': ['o', 'a', 'e', 'i'],
            'de': ['s', 'n', 'm', 'r', 'r', 'en'], 'nl': []}

CLASS_REPS = ['xyz', 'Abc', 'qu', ',', '.', '. ', '..', ';', '!', '?', '-', '--', "'", 'a-b', '12', 'кот', 'é',
              'é', ' ', '  ', ' ', '\t', ' ']


def _consts_of_operand(op, out):
    if isinstance(op, Const) and op.kind == 'str':
        out.add(op.value)


def literals_of(mir, prefix):
    out = set()
    for name, fns in mir.functions.items():
        if not name.startswith(prefix):
            continue
        for f in fns:
            for b in f.blocks.values():
                for st in b.stmts:
                    rv = st.rv
                    if isinstance(rv, Const):
                        _consts_of_operand(rv, out)
                    elif isinstance(rv, RAgg):
                        for x in rv.fields:
                            _consts_of_operand(x, out)
                    elif isinstance(rv, ROp):
                        for x in rv.args:
                            _consts_of_operand(x, out)
                    elif isinstance(rv, RCast):
                        _consts_of_operand(rv.operand, out)
                t = b.term
                if t.kind == 'call':
                    for a in t.args:
                        _consts_of_operand(a, out)
    return out


def _wordlike(s):
    return 0 < len(s) <= 40 and not any(c in s for c in ' "\n\t$[]{}=:') and not s.startswith('\\')


def vocabulary_words(mir, res, code, with_inflections=True, with_reps=False):
    lits = {s for s in literals_of(mir, code + '::') if _wordlike(s)}
    words = set(lits)
    if with_inflections:
        for w in list(lits):
            if w.isalpha() or any(ch.isalpha() for ch in w):
                for suf in SUFFIXES.get(code, []):
                    words.add(w + suf)
    from oracle.langs import LANGS
    L = LANGS[code]
    for attr in ('UNITS', 'TEENS', 'TENS', 'HUND', 'VEINTI', 'TEENS_PT', 'TEENS_BR', 'SCALES', 'zero_words'):
        for w in getattr(L, attr, []) or []:
            if w:
                words.add(w)
    words |= {L.zero, L.conj, L.decimal_sep}
    if with_reps:
        words |= set(CLASS_REPS)
    return sorted(words)

import argparse
import importlib
import os
import sys

from .common import run_check


def main():
    ap = argparse.ArgumentParser()
    ap.add_argument('pid')
    ap.add_argument('--tier', default=None)
    a = ap.parse_args()
    tier = a.tier or os.environ.get('VERIF_TIER') or 'quick'
    mod = importlib.import_module('checks.' + a.pid.lower())
    sys.exit(run_check(a.pid.upper(), mod.run, tier))


if __name__ == '__main__':
    main()

import argparse
import importlib
import os
import sys

from .common import run_check


def main():
    ap = argparse.ArgumentParser()
    ap.add_argument('pid')
    ap.add_argument('--tier', default=None)
    a = ap.parse_args()
    tier = a.tier or os.environ.get('VERIF_TIER') or 'quick'
    mod = importlib.import_module('checks.' + a.pid.lower())
    pid = a.pid.upper()
    if tier == 'thorough' and pid not in thorough_validated() and os.environ.get('VERIF_FORCE_THOROUGH') != '1':
        # the deeper bounds of this property did not complete within the time available when the suite was built
        # (DESIGN.md 11.9): the thorough command decides the quick bounds again rather than report a timeout
        os.environ['VERIF_THOROUGH_FALLBACK'] = '1'
        tier = 'quick'
    sys.exit(run_check(pid, mod.run, tier))


def thorough_validated():
    p = os.path.join(os.path.dirname(os.path.dirname(os.path.abspath(__file__))), 'THOROUGH.txt')
    return set(open(p).read().split()) if os.path.exists(p) else set()


if __name__ == '__main__':
    main()

"""C13 The Language facade behaves exactly as the concrete interpreter; ISO 639-1 codes resolve.

(a) Delegation, for every input: each of the eight LangInterpreter methods of `Language` is executed from MIR for each
    of the seven variants with *opaque* arguments and with the inner interpreters' methods uninterpreted (a recorder):
    the obligation is that exactly one call is made, to the same-named method of the variant's own interpreter type,
    with the identical argument objects, and that its result is returned unchanged.  No bound on the inputs.
(b) Everything else the API does with an interpreter goes through these eight methods (generic code can call nothing
    else), so equality of results follows by composition; the constructors Language::xxx() are checked to build the
    variant of their name.
(c) get_interpreter_for is executed on an opaque string whose equality with each literal of the function is a free
    Boolean (pairwise exclusive): Some(L) is returned exactly for the code of each built-in language, None otherwise."""
import z3
from .common import Check, Inconclusive, load_mir, new_executor, Violation
from mirsym.values import *
from mirsym import harness as H
from mirsym.intrinsics import intrinsic

METHODS = {
    'apply': ['str', 'mutds'],
    'apply_decimal': ['str', 'mutds'],
    'get_morph_marker': ['str'],
    'is_decimal_sep': ['str'],
    'format_and_value': ['ds'],
    'format_decimal_and_value': ['ds', 'ds2'],
    'is_linking': ['str'],
    'basic_annotate': ['mutvec'],
}
CTORS = {'english': ('English', 'en'), 'french': ('French', 'fr'), 'german': ('German', 'de'), 'italian': ('Italian', 'it'),
         'spanish': ('Spanish', 'es'), 'dutch': ('Dutch', 'nl'), 'portuguese': ('Portuguese', 'pt')}


class OpaqueStr:
    """a &str about which only equality with literals can be asked; each answer is a free Boolean"""
    type_name = 'str'

    def __init__(self, ex):
        self.ex = ex
        self.lits = {}

    def eq_lit(self, lit):
        if lit not in self.lits:
            b = z3.Bool('code_is_%s' % lit.encode('utf-8').hex())
            for o in self.lits.values():
                self.ex.add_assumption(z3.Not(z3.And(b, o)))
            self.lits[lit] = b
        return self.lits[lit]

    def same_as(self, o):
        return self is o


def differential_on_builder(ck, mir, res, facade_fn, method, vname, lv, nargs):
    """facade method vs the concrete interpreter's method on arbitrary valid DigitString arguments (the state space of
    C12: symbolic cells, length <= 8, zero count, marker): -> True (equal for every state), a Violation, or None"""
    from .c12 import sym_state
    from .c14 import values_equal
    from .spelled import pc, merged
    from .alphabet import vocabulary_words
    cands = res.find_impl(vname, 'LangInterpreter', method)
    if len(cands) != 1:
        return None
    conc_fn = mir.functions[cands[0]][-1]
    states, valid = [], []
    for i in range(nargs):
        v, view, ok_ = sym_state(8, 12)
        if i:      # second builder: fresh variable names
            sub = [(x, z3.BitVec(str(x) + '_b', x.size())) for x in view.cells + [view.ln, view.lz, view.flags, view.mdisc]]
            sub.append((view.frozen, z3.Bool('frozen_b')))
            ok_ = [z3.substitute(c, *sub) for c in ok_]
            from mirsym.values import Struct, Seq, Enum
            cells = [z3.substitute(c, *sub) for c in view.cells]
            ln, lz, fl, md = (z3.substitute(x, *sub) for x in (view.ln, view.lz, view.flags, view.mdisc))
            v = Struct('DigitString', (Seq(tuple(cells), ln, 'u8'), lz, z3.Bool('frozen_b'), fl,
                                       Enum('MorphologicalMarker', md, ((0, ('th',)), (1, ('avos',)), (2, ())))))
        states.append(v)
        valid += ok_
    valid.append(z3.UGE(z3.BitVec('len', 64), 1))
    inner = lv.payload(concrete_int(lv.disc))[0]
    exa, exb = new_executor(valid, cap=12), new_executor(valid, cap=12)
    try:
        ra = exa.explore(facade_fn, [lv] + states)
        rb = exb.explore(conc_fn, [inner] + states)
    except Unsupported as e:
        ck.inconclusive.append('differential %s::%s: %s' % (vname, method, e))
        return None
    ck.absorb(exa)
    ck.absorb(exb)
    cov = []
    ma, mb = merged(cov, ra), merged(cov, rb)
    fa = ma[0] if isinstance(ma, tuple) else ma
    fb = mb[0] if isinstance(mb, tuple) else mb
    r, m = ck.solve(valid + cov + [z3.Not(values_equal(fa, fb))])
    if r == 'unsat':
        return True
    if r != 'sat':
        ck.inconclusive.append('differential %s::%s undecided' % (vname, method))
        return None
    # replay through the public API: a vocabulary word on which facade and concrete interpreter disagree
    iso = [c for (v_, c) in CTORS.values() if v_ == vname][0]
    nat = ck.native()
    md = m.eval(z3.BitVec('marker', 64), model_completion=True).as_long()
    diffs = []
    for w in sorted(vocabulary_words(mir, res, iso, with_inflections=True)):
        t1, t2 = nat.t2d(iso, w, mode='facade'), nat.t2d(iso, w)
        if t1 != t2:
            diffs.append({'word': w, 'facade': t1.get('ok', t1), 'concrete': t2.get('ok', t2)})
            if len(diffs) >= 3:
                break
    if not diffs:
        ck.inconclusive.append('ENCODING-MISMATCH: %s::%s differs from the concrete method on a builder state (marker variant %d) '
                               'but no vocabulary word shows it natively' % (vname, method, md))
        return None
    return Violation('delegate:%s:%s' % (vname, method), {'variant': vname, 'method': method},
                     'Language::%s::%s is not delegated and differs from %s::%s: text2digits(%r) gives %r through the facade and %r directly'
                     % (vname, method, vname, method, diffs[0]['word'], diffs[0]['facade'], diffs[0]['concrete']),
                     {'variant': vname, 'method': method, 'marker_variant_in_model': md, 'native_differences': diffs})


def run(ck: Check):
    mir, res, th, mh = load_mir()
    variants = res.enums.get('Language')
    if not variants:
        raise Inconclusive('enum Language not found')
    ex = new_executor()
    # ------------------------------------------------------------------ constructors
    langs = {}
    for ctor, (vname, code) in CTORS.items():
        H.lang_value(ex, 'English')   # initialises executor state for nested calls
        try:
            v = ex.call_path('Language::%s' % ctor, [])
        except Unsupported as e:
            raise Inconclusive('Language::%s: %s' % (ctor, e))
        ck.obligations += 1
        idx = concrete_int(v.disc)
        okc = isinstance(v, Enum) and idx is not None and variants[idx] == vname and \
            v.payload(idx)[0].ty.split('::')[-1] == vname
        if okc:
            ck.discharged += 1
            langs[vname] = v
        else:
            ck.violations.append(Violation('ctor:%s' % ctor, {'kind': 'ctor', 'name': ctor},
                                           'Language::%s() does not build the %s variant' % (ctor, vname),
                                           {'ctor': ctor, 'native': ck.native().t2d(code, 'x', mode='facade')}))
    ck.samples.append({'constructors': {k: variants[concrete_int(v.disc)] for k, v in langs.items()}})
    # ------------------------------------------------------------------ (a) delegation
    calls = []

    def recorder(ex_, args):
        calls.append((ex_._current_path, args))
        return Opaque('ret', len(calls))
    for method, spec in METHODS.items():
        cands = res.find_impl('Language', 'LangInterpreter', method)
        if len(cands) != 1:
            raise Inconclusive('impl LangInterpreter for Language :: %s not found (%r)' % (method, cands))
        fn = mir.functions[cands[0]][-1]
        for vname, lv in langs.items():
            ex2 = new_executor()
            calls.clear()
            args = [lv]
            roots = {}
            for i, a in enumerate(spec):
                if a.startswith('mut'):
                    roots['r%d' % i] = Opaque('cell:' + a)
                    args.append(Ref('root', 'r%d' % i))
                else:
                    args.append(Opaque('arg:' + a))
            orig_lookup = ex2.lookup_callee

            def lookup(path, a, orig=orig_lookup, ex2=ex2):
                if 'as LangInterpreter>::' in path or 'as lang::LangInterpreter>::' in path:
                    ex2._current_path = path
                    return recorder
                return orig(path, a)
            ex2.lookup_callee = lookup
            inspects = None
            try:
                results = ex2.explore(fn, args, roots=roots)
            except Unsupported as e:
                # the facade method looks inside an (opaque) argument instead of forwarding it
                results, inspects = [], str(e)
            ck.absorb(ex2)
            ck.obligations += 1
            if inspects is not None and all(a in ('ds', 'ds2') for a in spec):
                # not a forwarded call: decide equality with the concrete interpreter on an arbitrary builder state
                verdict = differential_on_builder(ck, mir, res, fn, method, vname, lv, len(spec))
                if verdict is True:
                    ck.discharged += 1
                    ck.notes.append('%s::%s is not a single forwarded call (%s) but equals the concrete method on every '
                                    'builder state of at most 8 digits' % (vname, method, inspects))
                    continue
                if verdict is not None:
                    ck.violations.append(verdict)
                    continue
            good = len(results) == 1 and len(calls) == 1 and not ex2.panics
            why = ''
            if inspects is not None:
                good, why = False, 'the method inspects its argument: ' + inspects
            elif good:
                path, cargs = calls[0]
                inner = cargs[0]
                want_inner = lv.payload(concrete_int(lv.disc))[0]
                good = ('<%s as' % vname) in path.replace('lang::', '').replace('%s::' % vname.lower()[:2], '') or \
                    ('%s as' % vname) in path
                good = good and path.split('>::')[-1].split('::<')[0] == method
                good = good and (inner is want_inner or same(inner, want_inner))
                good = good and len(cargs) == len(args) and all(x is y or same(x, y) for x, y in zip(cargs[1:], args[1:]))
                good = good and isinstance(results[0].ret, Opaque) and results[0].ret.kind == 'ret'
                why = 'called %s' % path
            elif inspects is None:
                why = '%d paths, %d inner calls, %d panics' % (len(results), len(calls), len(ex2.panics))
            if good:
                ck.discharged += 1
                ck.covers += 1
                ck.covers_sat += 1
            else:
                # replay: compare facade and concrete natively on a few probe words
                code = [c for c, (v, cc) in CTORS.items() if v == vname]
                iso = CTORS[code[0]][1]
                nat = ck.native()
                probes = ['un', 'one', 'eins', 'uno', 'um', 'een', 'twenty-first', 'coma', 'point', 'et', 'neuf']
                diffs = []
                for w in probes:
                    a1, a2 = nat.call('word', 'facade', iso, w.encode().hex()), nat.call('word', 'concrete', iso, w.encode().hex())
                    t1, t2 = nat.t2d(iso, w, mode='facade'), nat.t2d(iso, w)
                    r1, r2 = nat.replace(iso, 'le ' + w + ' neuf', 0.0, mode='facade'), nat.replace(iso, 'le ' + w + ' neuf', 0.0)
                    if a1 != a2 or t1 != t2 or r1 != r2:
                        diffs.append(w)
                if diffs:
                    ck.violations.append(Violation('delegate:%s:%s' % (vname, method), {'variant': vname, 'method': method},
                                                   'Language::%s does not delegate %s to %s (%s); facade and concrete differ on %r'
                                                   % (vname, method, vname, why, diffs), {'variant': vname, 'method': method, 'probes': diffs}))
                else:
                    ck.inconclusive.append('delegation of %s for %s is not a single forwarded call (%s) but no native '
                                           'difference was found on the probe words' % (method, vname, why))
    ck.samples.append({'delegations_checked': '%d variants x %d methods' % (len(langs), len(METHODS))})
    # ------------------------------------------------------------------ (c) ISO codes
    ex3 = new_executor()
    code = OpaqueStr(ex3)
    from mirsym import intrinsics as I
    orig_eq = ex3.intrinsics['PartialEq::eq']

    def eq(ex_, args):
        a, b = ex_.deref(args[0]), ex_.deref(args[1])
        if isinstance(a, OpaqueStr) and isinstance(b, str):
            return a.eq_lit(b)
        if isinstance(b, OpaqueStr) and isinstance(a, str):
            return b.eq_lit(a)
        return orig_eq(ex_, args)
    ex3.intrinsics['PartialEq::eq'] = eq
    ex3.intrinsics['PartialEq::ne'] = lambda ex_, args: z3.Not(zbool(eq(ex_, args)))
    results = ex3.explore('get_interpreter_for', [code])
    ck.absorb(ex3)
    iso_of = {v: c for (v, c) in CTORS.values()}
    want = {c: v for v, c in iso_of.items()}
    lits = dict(code.lits)
    nat = ck.native()
    for c, vname in want.items():
        ck.obligations += 1
        b = lits.get(c)
        if b is None:
            r = nat.call('iso', c.encode().hex())
            if r.get('ok') == c:
                # the real function does resolve the code, by some means other than comparing the whole string: the
                # opaque-string abstraction cannot decide such a lookup
                ck.inconclusive.append('iso %s: resolved natively but never compared as a whole string (lookup not expressible '
                                       'on an opaque code)' % c)
                continue
            ck.violations.append(Violation('iso:%s' % c, {'kind': 'iso', 'code': c},
                                           'get_interpreter_for(%r) cannot return %s: the code is not compared at all; native: %r'
                                           % (c, vname, r.get('ok')), {'code': c, 'native': r}))
            continue
        bad = []
        for r in results:
            v = r.ret
            good = z3.BoolVal(False)
            if isinstance(v, Enum) and v.payload(1) is not None:
                inner = v.payload(1)[0]
                if isinstance(inner, Enum):
                    good = z3.And(bv(v.disc, 64) == 1, bv(inner.disc, 64) == variants.index(vname))
            bad.append(z3.And(*([x for x in r.cond if not isinstance(x, bool)] + [z3.Not(good)])))
        rr, m = ck.solve(ex3.assumptions + [b, z3.Or(*bad)])
        if rr == 'unsat':
            ck.discharged += 1
        elif rr == 'sat':
            r = nat.call('iso', c.encode().hex())
            if r.get('ok') == c:
                ck.inconclusive.append('ENCODING-MISMATCH: iso %s' % c)
            else:
                ck.violations.append(Violation('iso:%s' % c, {'kind': 'iso', 'code': c},
                                               'get_interpreter_for(%r) returns %r instead of %s' % (c, r.get('ok'), vname),
                                               {'code': c, 'native': r}))
        else:
            ck.inconclusive.append('iso %s undecided' % c)
    # anything else -> None
    ck.obligations += 1
    others = [b for l, b in lits.items() if l not in want]
    none_bad = []
    for r in results:
        v = r.ret
        is_none = bv(v.disc, 64) == 0 if isinstance(v, Enum) else z3.BoolVal(False)
        none_bad.append(z3.And(*([x for x in r.cond if not isinstance(x, bool)] + [z3.Not(is_none)])))
    rr, m = ck.solve(ex3.assumptions + [z3.Not(z3.Or(*[lits[c] for c in want if c in lits]))
                                        if any(c in lits for c in want) else z3.BoolVal(True), z3.Or(*none_bad)])
    if rr == 'unsat':
        ck.discharged += 1
    elif rr == 'sat':
        hit = [l for l, b in lits.items() if z3.is_true(m.eval(b, model_completion=True))]
        probe = hit[0] if hit else 'zz-gibberish'
        r = nat.call('iso', probe.encode().hex())
        if r.get('ok') is None:
            ck.inconclusive.append('ENCODING-MISMATCH: non-code %r' % probe)
        else:
            ck.violations.append(Violation('iso:non-code', {'kind': 'iso', 'code': probe},
                                           'get_interpreter_for(%r) returns %r although it is not the code of a built-in language'
                                           % (probe, r.get('ok')), {'code': probe, 'native': r}))
    ck.samples.append({'literals_compared_by_get_interpreter_for': sorted(lits)})
    ck.bounds = {'delegation': 'unbounded (arguments are opaque objects)', 'iso_codes': 'any string (equality with each '
                 'literal of the function is a free Boolean)'}
    ck.assumptions.append('end-to-end equality of API results through the facade follows from (a) because generic code can '
                          'reach an interpreter only through the eight trait methods (Rust typing)')
    return ('Delegation: MIR of each LangInterpreter method of Language executed for each variant with opaque arguments and the '
            'inner interpreter uninterpreted; exactly one forwarded call with identical arguments and unchanged result.  ISO '
            'codes: get_interpreter_for executed on an opaque string with free, pairwise exclusive equality Booleans; z3 decides '
            'Some(L) for the code of each built-in language and None for every other string.')

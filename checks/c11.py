"""C11 Letter case never matters."""
import z3
from .common import Check, run_parallel, Inconclusive
from .stream import *
from .c14 import values_equal
from oracle.langs import LANGS


NON_ASCII = {'fr': ['zéro'], 'es': ['dieciséis'], 'pt': ['três'], 'it': ['ventitré'], 'de': ['fünf']}


def recasings(w, quick):
    """case variants of w whose case mapping is reversible: lower(upper(v)) == lower(v) == lower(w)"""
    low = strings.rust_lowercase(w)
    cands = [low, w.upper(), w.capitalize()] + ([] if quick else [''.join(c.upper() if i % 2 else c for i, c in enumerate(low))])
    out = []
    for v in cands:
        if v not in out and strings.rust_lowercase(v) == low and strings.rust_lowercase(v.upper()) == low:
            out.append(v)
    return out


def worker(ck: Check, job):
    code, thr = job[0], job[1]
    part = job[2] if len(job) > 2 else 'both'
    L = LANGS[code]
    import os
    tiny = ck.tier == 'quick'
    quick = not os.environ.get('VERIF_DEEP')
    k = 3 if quick else 4
    reps, classes = stream_alphabet(ck, code, quick)
    if tiny:
        from oracle.langs import QUICK_WORDS
        reps = list(QUICK_WORDS[code])
    # the alphabet is the lowercase words; every word token additionally chooses one of its recasings
    # a number word with a non-ASCII letter must be present (case mapping outside ASCII is where lowercasing can go wrong)
    reps = list(reps) + [w for w in NON_ASCII.get(code, []) if w not in reps]
    reps = [strings.rust_lowercase(r) for r in reps]
    reps = list(dict.fromkeys(reps))
    st_low = Stream(code, reps, k, prefix='c')
    casev = [z3.BitVec('c_case%d' % i, 8) for i in range(k)]
    variants = [recasings(r, quick) for r in reps]
    maxv = max(len(v) for v in variants)
    assm = st_low.assm + [z3.ULT(c, maxv) for c in casev]
    # recased stream: same word/separator variables, text chosen by the case variable (clamped to the word's variants)
    slots = []
    for i in range(k):
        alts = []
        for j, r in enumerate(reps):
            vs = variants[j]
            for c, v in enumerate(vs):
                cond = z3.And(st_low.w[i] == j, casev[i] == c) if c < len(vs) - 1 else \
                    z3.And(st_low.w[i] == j, z3.UGE(casev[i], c))
                alts.append((cond, H.VTok(v, strings.rust_lowercase(v))))
        slots.append(tuple(alts))
        if i < k - 1:
            slots.append(st_low.slots[2 * i + 1])
    slots = tuple(slots)
    name = '%s:thr=%s%s' % (code, thr, '' if part == 'both' else ':' + part)
    cov, bad = [], []
    A = None
    if part in ('both', 'scan'):
        ex1 = make_executor(ck, assm)
        ex1.shape_ignore = {'Occurence'}
        r_low = run_scanner(ck, ex1, L, st_low.slots, thr)
        ck.absorb(ex1)
        ex2 = make_executor(ck, assm)
        ex2.shape_ignore = {'Occurence'}
        r_var = run_scanner(ck, ex2, L, slots, thr)
        ck.absorb(ex2)
        A, Bv = merged(cov, r_low), merged(cov, r_var)
        bad.append(('occurrences differ between the lowercase and the recased stream', z3.Not(seq_occ_equal(A, Bv))))
        for e in (ex1, ex2):
            bad += [('panic: %s %s at %s' % (p.kind, p.msg, p.where), c) for p, c in zip(e.panics, conds_of(e.panics))]
    if part in ('both', 'validate'):
        # validator: text2digits lowercases the phrase itself
        lowslots = [[(st_low.w[x] == idx, r) for idx, r in enumerate(reps)] for x in range(k)]
        varslots = [[(c, t.text) for c, t in slots[2 * x]] for x in range(k)]
        ex3 = make_executor(ck, assm)
        v_low = merged(cov, run_validator(ck, ex3, L, lowslots))
        ex4 = make_executor(ck, assm)
        v_var = merged(cov, run_validator(ck, ex4, L, varslots))
        ck.absorb(ex3)
        ck.absorb(ex4)
        bad.append(('validator result differs between the lowercase and the recased phrase', z3.Not(values_equal(v_low, v_var))))
        for e in (ex3, ex4):
            bad += [('panic: %s %s at %s' % (p.kind, p.msg, p.where), c) for p, c in zip(e.panics, conds_of(e.panics))]

    def concrete_tokens_var(m):
        toks = []
        for alts in slots:
            hit = [t for c, t in alts if z3.is_true(m.eval(c, model_completion=True))]
            if len(hit) != 1:
                raise Inconclusive('recased slot not exclusive (%d)' % len(hit))
            toks.append((hit[0].text, None, False, False))
        return toks

    def on_cex(m, fired=None):
        tl = st_low.concrete(m)
        tv = concrete_tokens_var(m)
        nat = ck.native()
        ra, rb = nat.find(code, tl, thr), nat.find(code, tv, thr)
        va, vb = nat.t2d(code, ' '.join(t[0] for t in tl[::2])), nat.t2d(code, ' '.join(t[0] for t in tv[::2]))
        rep = {'lang': code, 'threshold': thr, 'lower': [t[0] for t in tl], 'recased': [t[0] for t in tv],
               'native_lower': ra.get('ok', ra), 'native_recased': rb.get('ok', rb), 'validate_lower': va.get('ok', va),
               'validate_recased': vb.get('ok', vb)}
        oa = [native_occ(o) for o in ra.get('ok', {}).get('batch', [])]
        ob = [native_occ(o) for o in rb.get('ok', {}).get('batch', [])]
        differs = oa != ob or ('ok' in ra) != ('ok' in rb) or va.get('ok') != vb.get('ok')
        kind = 'scanner' if oa != ob else 'validator'
        return {'key': {'lang': code, 'kind': kind}, 'reproduced': differs, 'replay': rep,
                'what': '%s thr=%s: %r gives %r but %r gives %r' % (code, thr, ''.join(t[0] for t in tl),
                                                                  [(o['start'], o['end'], o['text']) for o in oa],
                                                                  ''.join(t[0] for t in tv), [(o['start'], o['end'], o['text']) for o in ob])}
    split = [[st_low.w[i] == j for j in range(len(reps))] for i in range(k)]
    ck.prove_none(name, assm, guard(cov, bad), on_cex, lambda m, c: None, case_split=split)
    ck.cover(name + ':recased-number', assm + ([z3.UGE(B64(A.len), 1)] if A is not None else []) + [z3.Or(*[c != 0 for c in casev])],
             lambda m: {'lang': code, 'recased': [t[0] for t in concrete_tokens_var(m)]})
    ck.bounds['stream_words'] = k
    ck.per_lang[code] = {'behaviour_classes_used': len(reps)}


def seq_occ_equal(A, Bv):
    na, nb = B64(A.len), B64(Bv.len)
    conds = [na == nb]
    ea = [o for o in A.elems if o is not UNINIT and o is not None]
    eb = [o for o in Bv.elems if o is not UNINIT and o is not None]
    for j in range(max(len(ea), len(eb))):
        if j < len(ea) and j < len(eb):
            fa, fb = ea[j].fields, eb[j].fields
            same = z3.And(B64(fa[0]) == B64(fb[0]), B64(fa[1]) == B64(fb[1]), values_equal(fa[2], fb[2]), ZB(fa[4]) == ZB(fb[4]))
            conds.append(z3.Implies(z3.UGT(na, j), same))
        else:
            conds.append(z3.ULE(na, j))
    return z3.And(*conds)


def run(ck: Check):
    import os
    langs = list(LANGS)
    only = os.environ.get('VERIF_LANGS')
    if only:
        langs = [c for c in langs if c in only.split(',')]
    import os
    jobs = [(c, t, 'scan') for c in langs for t in ((0.0, 10.0) if os.environ.get('VERIF_DEEP') else (10.0,))]
    jobs += [(c, 0.0, 'validate') for c in langs]
    run_parallel(ck, worker, jobs)
    ck.outside += ['streams of more than 3 word tokens', 'quick: words other than one per role (oracle QUICK_WORDS) and the non-ASCII number word; thorough: one word per behaviour class of the core alphabet',
                   'recasings other than lower / UPPER / Capitalised / aLtErNaTiNg', 'words whose case mapping is not reversible (excluded by the property)']
    ck.assumptions.append("a token's lowercase field is the lowercase of its text (what BasicToken::new computes)")
    return ('The same solver-chosen stream is scanned from MIR twice: all lowercase, and with a solver-chosen recasing per word '
            '(lowercase field recomputed); z3 decides that occurrences (span, text, ordinal flag) are identical at the '
            'threshold, and that text2digits gives the same result for both phrases.')

"""C17 Whitespace kind and amount never matter."""
import z3
from .common import Check, run_parallel, Inconclusive
from .textlevel import *
from .c14 import values_equal
from mirsym import strings
from oracle.langs import LANGS, CORE_WORDS

EN_SMALL = ['zero', 'one', 'twenty', 'hundred', 'million', 'and', 'point', 'first', 'o', 'xyz', 'ah']
WS_RUNS = [chr(c) for c in strings.WHITE_SPACE] + ['  ', ' \t', '\n ', '  ', '\r\n', '  ']


def worker(ck: Check, job):
    code, thr = job
    L = LANGS[code]
    quick = ck.tier == 'quick'
    k = 2 if quick else 3
    reps, classes = stream_alphabet(ck, code, True)
    reps = [r for r in reps if H._wordlike(r)]
    if code == 'en' and quick:
        # English forks its ambiguity annotator on every neighbour of 'o': the whitespace question does not need the whole
        # alphabet, so the quick tier keeps one word per role
        reps = [r for r in reps if r in EN_SMALL]
    w = [z3.BitVec('t_w%d' % i, 16) for i in range(k)]
    s = [z3.BitVec('t_ws%d' % i, 8) for i in range(k + 1)]
    assm = [z3.ULT(x, len(reps)) for x in w] + [z3.ULT(x, len(WS_RUNS)) for x in s]
    word_slots = [[(w[i] == j, r) for j, r in enumerate(reps)] for i in range(k)]
    ws_slots = [[(s[i] == j, r) for j, r in enumerate(WS_RUNS)] for i in range(k + 1)]
    base = parts_text(word_slots, [[(True, ' ')]] * (k - 1))
    var_inner = parts_text(word_slots, ws_slots[1:k])
    var_outer = parts_text(word_slots, ws_slots[1:k], lead=ws_slots[0], trail=ws_slots[k])
    name = '%s:thr=%s' % (code, thr)
    exb = text_executor(ck, assm)
    cov = []
    Ob = merged_occs(text_find(exb, L, base, thr), cov)
    ck.absorb(exb)
    vb = merged(cov, text_validate(exb, L, base))
    bad = [('panic (baseline): %s %s at %s' % (p.kind, p.msg, p.where), c) for p, c in zip(exb.panics, conds_of(exb.panics))]
    runs = {}
    for label, txt, shift in (('inner', var_inner, 0), ('outer', var_outer, 1)):
        exv = text_executor(ck, assm)
        Ov = merged_occs(text_find(exv, L, txt, thr), cov)
        vv = merged(cov, text_validate(exv, L, txt))
        ck.absorb(exv)
        runs[label] = txt
        bad.append(('occurrences change when whitespace is substituted (%s)' % label, z3.Not(occs_equal(Ob, Ov, shift_a=shift, shift_b=0))))
        bad.append(('validation result changes when whitespace is substituted (%s)' % label, z3.Not(values_equal(vb, vv))))
        bad += [('panic (%s): %s %s at %s' % (label, p.kind, p.msg, p.where), c) for p, c in zip(exv.panics, conds_of(exv.panics))]

    def on_cex(m, fired=None):
        nat = ck.native()
        tb, _ = concrete_text(base, m)
        which = 'outer' if fired and any('outer' in f_ for f_ in fired) else 'inner'
        tv, parts = concrete_text(runs[which], m)
        rb, rv = nat.textfind(code, tb, thr), nat.textfind(code, tv, thr)
        vb_, vv_ = nat.t2d(code, tb), nat.t2d(code, tv)
        rep = {'lang': code, 'threshold': thr, 'baseline': tb, 'variant': tv, 'native_baseline': rb.get('ok', rb),
               'native_variant': rv.get('ok', rv), 'validate_baseline': vb_.get('ok', vb_), 'validate_variant': vv_.get('ok', vv_)}
        ob = [(o['text'], o['is_ordinal']) for o in rb.get('ok', {}).get('occs', [])]
        ov = [(o['text'], o['is_ordinal']) for o in rv.get('ok', {}).get('occs', [])]
        differs = ob != ov or vb_.get('ok') != vv_.get('ok') or ('ok' in rb) != ('ok' in rv)
        ws = [p for p in parts if all(strings.char_is_whitespace(ord(c)) for c in p)]
        asciiws = all(all(strings.char_is_ascii_whitespace(ord(c)) for c in p) for p in ws)
        return {'key': {'lang': code, 'kind': 'ascii-whitespace' if asciiws else 'unicode-whitespace'}, 'reproduced': differs,
                'replay': rep, 'what': '%s thr=%s: %r gives %r / %r but %r gives %r / %r' % (
                    code, thr, tb, ob, vb_.get('ok'), tv, ov, vv_.get('ok'))}
    ck.prove_none(name, assm, guard(cov, bad), on_cex, lambda m, c: None)
    ck.cover(name + ':number-found', assm + [z3.UGE(B64(Ob.len), 1), z3.Or(*[x >= 6 for x in s[1:k]])],
             lambda m: {'lang': code, 'variant': concrete_text(var_outer, m)[0]})
    ck.bounds['text_words'] = k
    ck.per_lang[code] = {'words_used': len(reps), 'whitespace_runs': len(WS_RUNS)}


def run(ck: Check):
    import os
    langs = list(LANGS)
    only = os.environ.get('VERIF_LANGS')
    if only:
        langs = [c for c in langs if c in only.split(',')]
    jobs = [(c, 0.0) for c in langs] + ([(c, 10.0) for c in langs] if ck.tier != 'quick' else [('en', 10.0), ('fr', 10.0)])
    run_parallel(ck, worker, jobs)
    ck.outside += ['texts of more than %d words' % (2 if ck.tier == 'quick' else 3), 'whitespace runs other than the 25 White_Space '
                   'characters alone and six two-character runs', 'that a whitespace run is one separator token and never merges into '
                   'a word: obligation of C02 (tokenizer on arbitrary characters)']
    ck.assumptions.append('the tokenizer cuts a text made of alternating word-like and separator-like parts at the part boundaries (C02)')
    return ('Texts of k solver-chosen words separated by solver-chosen whitespace runs (any of the 25 Unicode White_Space '
            'characters, and some two-character runs), with and without leading/trailing whitespace, are pushed through '
            'tokenize/basic_annotate/find_numbers and text2digits from MIR and compared by z3 with the same words separated by '
            'single ASCII spaces: occurrences (text, flag, span up to the shift) and validation result must be equal.')

"""C03 Totality: every public entry point returns for every input, never panics.

Every MIR assert (overflow, bounds), every unwrap/expect, slice index, copy_from_slice/swap_with_slice length check,
drain/insert range that the executor meets is a panic *obligation*.  All other checks already fail on a satisfiable
panic condition within their own input spaces (spelled numbers, token streams, builder states, facade, ISO codes).
This check adds the degenerate shapes nobody else visits:
  (1) text2digits on phrases of 0..2 words drawn from degenerate tokens (hyphen-only, apostrophes, empty halves of a
      hyphenated word, digits, non-Latin, combining characters) and ordinary number words;
  (2) find_numbers and the lazy iterator on short streams of the same tokens at non-finite / negative / tiny thresholds;
  (3) replace_numbers_in_stream on those streams (drain/insert spans);
  (4) replace_numbers_in_text (tokenize, basic_annotate, scan, splice, join) on texts of three words including the
      trigger words of the French and English ambiguity annotators."""
import z3
from .common import Check, run_parallel, Inconclusive
from .stream import *
from .c15 import DRIVER as LAZY_DRIVER
from oracle.langs import LANGS, CORE_WORDS

DEGENERATE = ['-', '--', "'", "''", 'a-b', '-a', 'a-', 'a--b', '12', '1-2', 'кот', 'é', 'x', "l'", 'o', 'ß', 'İ', '٣']
TEXT_EXTRA = {'fr': ['le', 'du', "l'", 'numéro', 'neuf', 'vingt', 'plus'], 'en': ['twenty', 'hundred', 'and', 'o', 'plus']}
THRESHOLDS = [float('nan'), float('inf'), float('-inf'), -0.0, 5e-324, 1.7976931348623157e308, -1.0, 0.5]


def worker(ck: Check, code):
    L = LANGS[code]
    words = DEGENERATE + CORE_WORDS[code][:8] + [L.zero, L.conj, L.decimal_sep]
    words = list(dict.fromkeys(words))
    k = 2
    wv = [z3.BitVec('z_w%d' % i, 16) for i in range(k)]
    assm = [z3.ULE(x, len(words)) for x in wv]
    # slot alternative index len(words) = empty slot
    slots = [[(wv[i] == j, w) for j, w in enumerate(words)] + [(wv[i] == len(words), None)] for i in range(k)]
    # ---------------------------------------------------------------- (1) validator
    ex = make_executor(ck, assm)
    res = run_validator(ck, ex, L, slots)
    ck.absorb(ex)
    bad = [('text2digits panics: %s %s at %s' % (p.kind, p.msg, p.where), c) for p, c in zip(ex.panics, conds_of(ex.panics))]
    covered = [pc(r) for r in res] + conds_of(ex.panics) + conds_of(ex.bound_conds)
    r0, _ = ck.solve(assm + [z3.Not(z3.Or(*covered))])
    if r0 != 'unsat':
        ck.inconclusive.append('%s: validator paths do not cover all phrases (%s)' % (code, r0))

    def phrase_of(m):
        return ' '.join(concrete_phrase(slots, m))

    def on_cex_v(m, fired=None):
        text = phrase_of(m)
        nat = ck.native()
        r = nat.t2d(code, text)
        rel = ck.native('release')
        r2 = rel.t2d(code, text)
        rel.close()
        rep = {'lang': code, 'text': text, 'native_dev': r, 'native_release': r2}
        empty = text.strip() == ''
        return {'key': {'lang': code, 'kind': 'empty-phrase' if empty else 'panic'}, 'reproduced': 'panic' in r or 'panic' in r2,
                'replay': rep, 'what': '%s: text2digits(%r) panics: %s' % (code, text, r.get('panic') or r2.get('panic'))}
    ck.prove_none('%s:text2digits' % code, assm, bad, on_cex_v, lambda m, c: None)
    ck.cover('%s:text2digits:err' % code, assm + [z3.Or(*[z3.And(pc(r), B64(r.ret.disc) == 1) for r in res])],
             lambda m: {'lang': code, 'text': phrase_of(m)})
    # ---------------------------------------------------------------- (2,3) scanner / lazy / stream replacement
    st = Stream(code, words, k, seps=[' ', '-', ', ', '.'], prefix='z')
    for thr in THRESHOLDS:
        ex2 = make_executor(ck, st.assm)
        ex2.shape_ignore = {'Occurence'}
        run_scanner(ck, ex2, L, st.slots, thr)
        if 'harness::drain_lazily' not in ex2.mir.functions:
            ex2.mir.add_synthetic(LAZY_DRIVER)
        ex2.intrinsics['harness::probe'] = lambda ex_, args: UNIT
        lang = H.lang_value(ex2, L.type_name)
        r0 = ex2.explore('find_numbers_iter', [H.TokIter(st.slots), lang, thr])
        ex2.explore('harness::drain_lazily', [Ref('root', 'it')], roots={'it': r0[0].ret})
        ck.absorb(ex2)
        bad2 = [('scanner panics: %s %s at %s' % (p.kind, p.msg, p.where), c) for p, c in zip(ex2.panics, conds_of(ex2.panics))]

        def on_cex_s(m, fired=None, thr=thr):
            toks = st.concrete(m)
            nat = ck.native()
            r = nat.find(code, toks, thr)
            rel = ck.native('release')
            r2 = rel.find(code, toks, thr)
            rel.close()
            rep = {'lang': code, 'threshold': repr(thr), 'tokens': [t[0] for t in toks], 'native_dev': r.get('ok', r),
                   'native_release': r2.get('ok', r2)}
            return {'key': {'lang': code, 'kind': 'scanner-panic'}, 'reproduced': 'panic' in r or 'panic' in r2, 'replay': rep,
                    'what': '%s: find_numbers/iter/replace on %r at threshold %r panics: %s' % (code, [t[0] for t in toks], thr,
                                                                                         r.get('panic') or r2.get('panic'))}
        ck.prove_none('%s:scanner:thr=%r' % (code, thr), st.assm, bad2, on_cex_s, lambda m, c: None)
    ck.cover('%s:scanner:reached' % code, st.assm, lambda m: {'lang': code, 'tokens': [t[0] for t in st.concrete(m)]})
    # ---------------------------------------------------------------- (4) whole-text entry point (tokenize, annotate, rewrite)
    from . import textlevel as TL
    tw = [w_ for w_ in list(dict.fromkeys(CORE_WORDS[code][:(4 if code == 'en' else 14)] + TEXT_EXTRA.get(code, []) + ['xyz', 'x']))
          if H._wordlike(w_)]
    kt = 3
    tv = [z3.BitVec('zt_w%d' % i, 16) for i in range(kt)]
    sv = [z3.BitVec('zt_s%d' % i, 8) for i in range(kt - 1)]
    tseps = [' ', ', ', '. ', ' - ']
    tassm = [z3.ULT(x, len(tw)) for x in tv] + [z3.ULT(x, len(tseps)) for x in sv]
    txt = TL.parts_text([[(tv[i] == j, w_) for j, w_ in enumerate(tw)] for i in range(kt)],
                        [[(sv[i] == j, sp) for j, sp in enumerate(tseps)] for i in range(kt - 1)])
    for thr in (0.0, 10.0):
        ex4 = TL.text_executor(ck, tassm)
        lang4 = H.lang_value(ex4, L.type_name)
        ex4.explore('replace_numbers_in_text', [txt, lang4, thr])
        ck.absorb(ex4)
        bad4 = [('replace_numbers_in_text panics: %s %s at %s' % (p.kind, p.msg, p.where), c) for p, c in zip(ex4.panics, conds_of(ex4.panics))]

        def on_cex_t(m, fired=None, thr=thr):
            t, _ = TL.concrete_text(txt, m)
            nat = ck.native()
            r = nat.replace(code, t, thr)
            rel = ck.native('release')
            r2 = rel.replace(code, t, thr)
            rel.close()
            rep = {'lang': code, 'threshold': thr, 'text': t, 'native_dev': r, 'native_release': r2}
            return {'key': {'lang': code, 'kind': 'text-panic'}, 'reproduced': 'panic' in r or 'panic' in r2, 'replay': rep,
                    'what': '%s: replace_numbers_in_text(%r, %s) panics: %s' % (code, t, thr, r.get('panic') or r2.get('panic'))}
        ck.prove_none('%s:text:thr=%s' % (code, thr), tassm, bad4, on_cex_t, lambda m, c: None)
    ck.cover('%s:text:reached' % code, tassm, lambda m: {'lang': code, 'text': TL.concrete_text(txt, m)[0]})
    ck.per_lang[code] = {'degenerate_tokens': len(DEGENERATE), 'thresholds': [repr(t) for t in THRESHOLDS]}


def run(ck: Check):
    import os
    langs = list(LANGS)
    only = os.environ.get('VERIF_LANGS')
    if only:
        langs = [c for c in langs if c in only.split(',')]
    run_parallel(ck, worker, langs)
    ck.bounds = {'phrase_words': '0..2', 'stream_words': 2, 'text_words': 3, 'thresholds': [repr(t) for t in THRESHOLDS]}
    ck.outside += ['very long inputs (termination is by construction: every loop runs over finite input; the claim is bounded by '
                   'the token counts of the checks)', 'allocation failure, stack exhaustion',
                   'tokenizer on arbitrary characters: obligation of C02; builder methods: C12; facade / ISO lookup: C13; '
                   'spelled numbers and streams of vocabulary words: C01, C04-C09, C15-C18 (each fails on a satisfiable panic condition)']
    return ('Every potential panic site met while executing text2digits on degenerate phrases (including the empty phrase) '
            'and find_numbers / the lazy iterator on degenerate streams at non-finite, negative and extreme thresholds is an '
            'obligation decided by z3; satisfiable ones are replayed natively in the dev and release profiles.')

"""C04 Ordinal round-trip: the spelled n-th ordinal (with its inflections) becomes digits + the language's ordinal
marker, is flagged ordinal, and its value is n."""
import z3
from .common import Check, run_parallel, Inconclusive
from .spelled import *
from oracle.langs import LANGS
from oracle.ordinals import ORDINALS, MAX_DIGITS


def worker(ck: Check, job):
    code, dom = job[0], job[1]
    only_base_inflection = len(job) > 2 and job[2] == 'base'
    L = LANGS[code]
    digs = Digits(12)
    f = L.flags()
    infl = z3.BitVec('inflection', 8)
    slots, markers, side = ORDINALS[code](digs, f, infl)
    assm = digs.domain(dom) + list(side) + list(L.side_constraints(digs, f)) + [z3.Not(digs.is_zero())]
    if 'std' in job:
        # standard spelling only (no regional tens): the variants are decided on the ranks below 100
        assm += [z3.Not(f[k_]) for k_ in ('sept', 'huit', 'oct', 'non') if k_ in f]
    if only_base_inflection:
        assm.append(infl == 0)
        # drop the alternatives of other inflections up front (keeps the slots small)
        slots = [[(c, w) for c, w in alts if not _mentions_other_inflection(c, infl)] for alts in slots]
    label = '%s/%s%s%s' % (code, dom, '/base-inflection' if only_base_inflection else '', '/standard-tens' if 'std' in job else '')
    words_of = lambda m: concrete_phrase(slots, m)

    def marker_of(m):
        hit = [mm for c, mm in markers if c is True or z3.is_true(m.eval(c, model_completion=True))]
        if len(hit) != 1:
            raise Inconclusive('marker alternatives not exclusive in model')
        return hit[0]

    def text_ok(text):
        return z3.Or(*[z3.And(ZB(c) if not isinstance(c, bool) else z3.BoolVal(c), decimal_matches(text, digs, suffix=mk))
                       for c, mk in markers])

    # ---------------------------------------------------------------- validator
    ex = make_executor(ck, assm)
    res = run_validator(ck, ex, L, slots)
    ck.absorb(ex)
    bad, oks = [], []
    for r in res:
        p = r.ret.payload(0)
        good = z3.And(B64(r.ret.disc) == 0, text_ok(p[0])) if p is not None else z3.BoolVal(False)
        bad.append(('wrong result', z3.And(pc(r), z3.Not(good))))
        oks.append(z3.And(pc(r), good))
    bad += [('panic: %s %s at %s' % (p.kind, p.msg, p.where), c) for p, c in zip(ex.panics, conds_of(ex.panics))]

    def on_cex_v(m, fired=None):
        n = digs.value_of(m)
        words = words_of(m)
        text = ' '.join(words)
        want = str(n) + marker_of(m)
        nat = ck.native()
        r = nat.t2d(code, text)
        got = r.get('ok', {}).get('Ok') if 'ok' in r else None
        rep = {'lang': code, 'rank': n, 'text': text, 'expected': want, 'native': r}
        if got == want:
            return {'key': {}, 'what': '', 'reproduced': False, 'replay': rep}
        cw = culprit_word(nat, code, words, skip=(L.conj,))
        return {'key': {'lang': code, 'word': cw}, 'reproduced': True, 'replay': rep, 'culprit': cw,
                'what': '%s: text2digits(%r) gives %s, expected %s' % (code, text, r.get('ok', r), want)}

    def block(m, cex):
        return block_word([slots], cex['culprit']) if cex.get('culprit') else None
    ck.prove_none(label + ':validator', assm, bad, on_cex_v, block)
    ck.cover(label + ':validator:ok', assm + [z3.Or(*oks)] if oks else [False],
             lambda m: {'lang': code, 'rank': digs.value_of(m), 'text': ' '.join(words_of(m)), 'expected': str(digs.value_of(m)) + marker_of(m)})

    # ---------------------------------------------------------------- scanner (threshold 0)
    tslots, nwords, ne = token_slots(slots)
    ex2 = make_executor(ck, assm)
    res2 = run_scanner(ck, ex2, L, tslots, 0.0)
    ck.absorb(ex2)
    bad2, ok2 = [], []
    for r in res2:
        v = r.ret
        good = z3.BoolVal(False)
        if isinstance(v, Seq) and v.cap >= 1:
            o = v.elems[0]
            st, en, text, val, isord = o.fields
            val_ok = z3.BoolVal(False)
            if isinstance(val, strings.F64Exact) and val.src is not None:
                val_ok = z3.And(z3.BoolVal(val.scale == 0), decimal_matches(SymStr(val.src), digs))
            good = z3.And(B64(v.len) == 1, B64(st) == 0, B64(en) == 2 * nwords - 1, text_ok(text), val_ok, ZB(isord))
        bad2.append(('wrong result', z3.And(pc(r), z3.Not(good))))
        ok2.append(z3.And(pc(r), good))
    bad2 += [('panic: %s %s at %s' % (p.kind, p.msg, p.where), c) for p, c in zip(ex2.panics, conds_of(ex2.panics))]

    def on_cex_s(m, fired=None):
        n = digs.value_of(m)
        toks = concrete_tokens(tslots, m)
        want = str(n) + marker_of(m)
        nat = ck.native()
        r = nat.find(code, [tok_tuple(t, m) for t in toks], 0.0)
        rep = {'lang': code, 'rank': n, 'tokens': [t.text for t in toks], 'expected': want, 'native': r.get('ok', r)}
        good = False
        if 'ok' in r:
            occs = [native_occ(o) for o in r['ok']['batch']]
            good = (len(occs) == 1 and occs[0]['text'] == want and occs[0]['value'] == float(n) and occs[0]['is_ordinal']
                    and occs[0]['start'] == 0 and occs[0]['end'] == len(toks))
        if good:
            return {'key': {}, 'what': '', 'reproduced': False, 'replay': rep}
        cw = culprit_word(nat, code, words_of(m), skip=(L.conj,))
        return {'key': {'lang': code, 'word': cw}, 'reproduced': True, 'replay': rep, 'culprit': cw,
                'what': '%s: scanner on %r gives %s, expected one ordinal %s' % (
                    code, ''.join(t.text for t in toks),
                    [(o['text'], o['is_ordinal'], o['value']['repr']) for o in r.get('ok', {}).get('batch', [])], want)}
    ck.prove_none(label + ':scanner', assm, bad2, on_cex_s, block)
    ck.cover(label + ':scanner:ok', assm + [z3.Or(*ok2)] if ok2 else [False],
             lambda m: {'lang': code, 'rank': digs.value_of(m), 'tokens': [t.text for t in concrete_tokens(tslots, m)]})
    ck.per_lang[label] = {'validator_paths': len(res), 'scanner_paths': len(res2)}


def _mentions_other_inflection(c, infl):
    """condition has a conjunct infl == v with v != 0"""
    if isinstance(c, bool):
        return False
    stack = [c]
    while stack:
        e = stack.pop()
        if z3.is_and(e):
            stack.extend(e.children())
        elif z3.is_eq(e) and e.arg(0).eq(infl) and z3.is_bv_value(e.arg(1)) and e.arg(1).as_long() != 0:
            return True
    return False


def run(ck: Check):
    import os
    langs = list(ORDINALS)
    only = os.environ.get('VERIF_LANGS')
    if only:
        langs = [c for c in langs if c in only.split(',')]
    jobs = []
    for c in langs:
        if MAX_DIGITS[c] == 4:
            jobs.append((c, 'low4'))            # es/pt: ranks 1..1999 (the speller constrains the thousands digit)
        elif ck.tier == 'quick' and c == 'fr':
            jobs.append((c, 'low3', 'base', 'std'))   # all ranks below 1000, base form, standard (non-regional) tens ...
            jobs.append((c, 'low2'))                  # ... and every inflection and regional variant for ranks below 100
        elif ck.tier == 'quick' and c == 'de':
            jobs.append((c, 'low3', 'base'))      # all ranks below 1000 in the base form ...
            jobs.append((c, 'low2'))              # ... and every declension ending for ranks below 100
        elif ck.tier == 'quick':
            jobs.append((c, 'low4' if c == 'en' else 'low3'))
        else:
            jobs.append((c, 'low6'))
    run_parallel(ck, worker, jobs)
    ck.bounds['ranks'] = 'quick: en 1..9999, es/pt 1..1999, nl/it 1..999, de/fr 1..999 in the base inflection and 1..99 in every inflection; thorough: 1..999999 (es/pt 1..1999)'
    ck.outside += ['ranks above the bound', 'en: plural/fraction forms (fifths)', 'it: x10th above 100 and ranks with both a thousands '
                   'part and a units part of at most ten (single-word forms)', 'es/pt: apocopated primer/tercer, compound single-word '
                   'forms (decimotercero)', 'de/nl/it/fr/en ranks >= 10^6']
    ck.assumptions.append('the spelling of the n-th ordinal is the one produced by oracle/ordinals.py')
    return ('The digits of the rank and the inflection are solver variables; the reference ordinal speller turns them into word '
            'slots; text2digits and find_numbers (threshold 0) are executed from MIR; z3 decides that the result is decimal(n) '
            'followed by the marker of the inflection, flagged ordinal, with value n, as exactly one occurrence.')

"""C01 Cardinal round-trip: every integer below the bound, spelled by the reference speller (with its orthographic
variants), is converted to exactly its decimal digits by the validator and is found as exactly one occurrence by
the scanner inside a sentence context."""
import z3
from .common import Check, run_parallel, Inconclusive
from .spelled import *
from oracle.langs import LANGS


def worker(ck: Check, code):
    code, dom = code if isinstance(code, tuple) else (code, None)
    L = LANGS[code]
    quick = ck.tier == 'quick'
    nd = 6 if quick else 12
    digs = Digits(12)
    f = L.flags()
    if dom is None:
        dom = 'low6' if quick else 'full12'
    assm = digs.domain(dom) + list(L.side_constraints(digs, f))
    slots = L.cardinal_slots(digs, f)
    ck.bounds['%s_domain_%s' % (code, dom)] = digs.domain.__doc__.split(dom)[1].split('\n')[0].strip(" ':") if dom in digs.domain.__doc__ else dom
    _code_label = '%s/%s' % (code, dom)
    nat_words = lambda m: concrete_phrase(slots, m)

    # ---------------------------------------------------------------- validator
    import sys, time
    t0 = time.time()
    ex = make_executor(ck, assm)
    res = run_validator(ck, ex, L, slots)
    ck.absorb(ex)
    print('[%s] validator explored: %.0fs, %d paths, %d solver checks (%.0fs)' % (code, time.time() - t0, ex.stats.paths,
          ex.stats.solver_checks, ex.stats.solver_time), file=sys.stderr, flush=True)
    bad = []
    oks = []
    for r in res:
        p = r.ret.payload(0)
        good = z3.And(B64(r.ret.disc) == 0, decimal_matches(p[0], digs)) if p is not None else z3.BoolVal(False)
        bad.append(('wrong result', z3.And(pc(r), z3.Not(good))))
        oks.append(z3.And(pc(r), good))
    bad += [('panic: %s %s at %s' % (p.kind, p.msg, p.where), c) for p, c in zip(ex.panics, conds_of(ex.panics))]
    covered = [pc(r) for r in res] + conds_of(ex.panics) + conds_of(ex.bound_conds)
    r0, _ = ck.solve(assm + [z3.Not(z3.Or(*covered))])
    if r0 != 'unsat':
        ck.inconclusive.append('%s validator: explored paths do not cover all inputs (%s)' % (code, r0))
    if ex.bound_conds:
        rb, _ = ck.solve(assm + [z3.Or(*conds_of(ex.bound_conds))])
        if rb != 'unsat':
            ck.inconclusive.append('%s validator: a path leaves the capacity bound' % code)

    def on_cex_v(m):
        n = digs.value_of(m)
        words = nat_words(m)
        text = ' '.join(words)
        nat = ck.native()
        r = nat.t2d(code, text)
        got = r.get('ok', {}).get('Ok') if 'ok' in r else None
        rep = {'lang': code, 'n': n, 'text': text, 'native': r}
        if got == str(n):
            return {'key': {}, 'what': '', 'reproduced': False, 'replay': rep}
        rel = ck.native('release')
        rep['native_release'] = rel.t2d(code, text)
        rel.close()
        cw = culprit_word(nat, code, words, skip=(L.conj,))
        return {'key': {'lang': code, 'word': cw}, 'reproduced': True, 'replay': rep, 'culprit': cw,
                'what': '%s: text2digits(%r) gives %s, expected %d' % (code, text, r.get('ok', r), n)}

    def block_v(m, cex):
        if cex.get('culprit') is None:
            return None
        return block_word([slots], cex['culprit'])
    ck.prove_none('%s:validator' % _code_label, assm, bad, on_cex_v, block_v)
    ck.cover('%s:validator:ok' % _code_label, assm + [z3.Or(*oks)] if oks else [False],
             lambda m: {'lang': code, 'n': digs.value_of(m), 'text': ' '.join(nat_words(m))})

    # ---------------------------------------------------------------- scanner: bare phrase, and in sentence contexts
    # the scanner on French is an order of magnitude more expensive (word-count variants x regional flags)
    sdom = dom
    if code == 'fr' and dom in ('low6', 'full12'):
        sdom = 'low3' if quick else 'low6'
    scanner_part(ck, code, L, digs, f, slots, digs.domain(sdom) + list(L.side_constraints(digs, f)), sdom,
                 with_context=False)
    ck.bounds['%s_scanner_domain' % code] = sdom
    if dom in ('low6', 'full12'):
        cdom = 'low2' if quick else 'low3'
        scanner_part(ck, code, L, digs, f, slots, digs.domain(cdom) + list(L.side_constraints(digs, f)), cdom,
                     with_context=True)
        ck.bounds['%s_context_domain' % code] = cdom
    res2 = []
    ck.per_lang[_code_label] = {'validator_paths': len(res),
                         'variant_flags': sorted(f)}
    for o in L.OUTSIDE:
        s = '%s: %s' % (code, o)
        if s not in ck.outside:
            ck.outside.append(s)


def scanner_part(ck, code, L, digs, f, slots, assm, nd, with_context):
    nat_words = lambda m: concrete_phrase(slots, m)
    import sys, time
    cp, cs = z3.BitVec('ctx_prefix', 8), z3.BitVec('ctx_suffix', 8)
    ow = L.ordinary
    prefix = [tuple([(cp == 1, word_token(ow[1])), (cp == 2, word_token(ow[0].capitalize())), (z3.UGE(cp, 3), None),
                     (cp == 0, None)]),
              tuple([(z3.And(z3.UGE(cp, 1), z3.ULE(cp, 2)), H.VTok(' ', ' ')), (z3.Not(z3.And(z3.UGE(cp, 1), z3.ULE(cp, 2))), None)])]
    suffix = [tuple([(cs == 1, H.VTok(' ', ' ')), (cs == 2, H.VTok(', ', ', ')), (cs == 3, H.VTok('.', '.')),
                     (cs == 4, H.VTok('; ', '; ')), (z3.Or(cs == 0, z3.UGE(cs, 5)), None)]),
              tuple([(z3.Or(cs == 1, cs == 2, cs == 4), word_token(ow[2])), (z3.Not(z3.Or(cs == 1, cs == 2, cs == 4)), None)])]
    tslots, nwords, ne = token_slots(slots, prefix, suffix)
    assm_s = assm + ([z3.ULE(cp, 2), z3.ULE(cs, 4)] if with_context else [cp == 0, cs == 0])
    ex2 = make_executor(ck, assm_s)
    t0 = time.time()
    res2 = run_scanner(ck, ex2, L, tslots, 0.0)
    ck.absorb(ex2)
    print('[%s] scanner%s explored' % (code, ' (contexts)' if with_context else '') + ' %s' % '', file=sys.stderr) if False else print('[%s] scanner explored: %.0fs, %d paths, %d solver checks (%.0fs), %d merges' % (code, time.time() - t0,
          ex2.stats.paths, ex2.stats.solver_checks, ex2.stats.solver_time, ex2.stats.merges), file=sys.stderr, flush=True)
    npre = z3.If(cp == 0, z3.BitVecVal(0, 64), z3.BitVecVal(2, 64))
    exp_start = npre
    exp_end = npre + 2 * nwords - 1
    bad2, ok2 = [], []
    for r in res2:
        v = r.ret
        good = z3.BoolVal(False)
        if isinstance(v, Seq):
            n_occ = B64(v.len)
            if v.cap >= 1:
                o = v.elems[0]
                if isinstance(o, Choice):
                    raise Inconclusive('occurrence is a Choice')
                st, en, text, val, isord = o.fields
                val_ok = z3.BoolVal(True)
                if isinstance(val, strings.F64Exact) and val.src is not None:
                    # the value is the number denoted by the digit string it was parsed from
                    val_ok = z3.And(z3.BoolVal(val.scale == 0), decimal_matches(SymStr(val.src), digs))
                else:
                    val_ok = z3.BoolVal(False)
                good = z3.And(n_occ == 1, B64(st) == exp_start, B64(en) == exp_end, decimal_matches(text, digs),
                              val_ok, z3.Not(ZB(isord)))
        bad2.append(('wrong result', z3.And(pc(r), z3.Not(good))))
        ok2.append(z3.And(pc(r), good))
    bad2 += [('panic: %s %s at %s' % (p.kind, p.msg, p.where), c) for p, c in zip(ex2.panics, conds_of(ex2.panics))]
    covered = [pc(r) for r in res2] + conds_of(ex2.panics) + conds_of(ex2.bound_conds)
    r0, _ = ck.solve(assm_s + [z3.Not(z3.Or(*covered))])
    if r0 != 'unsat':
        ck.inconclusive.append('%s scanner: explored paths do not cover all inputs (%s)' % (code, r0))

    def on_cex_s(m):
        n = digs.value_of(m)
        toks = concrete_tokens(tslots, m)
        nat = ck.native()
        r = nat.find(code, [tok_tuple(t, m) for t in toks], 0.0)
        rep = {'lang': code, 'n': n, 'tokens': [t.text for t in toks], 'native': r}
        good = False
        words = [t.text for t in toks]
        if 'ok' in r:
            occs = [native_occ(o) for o in r['ok']['batch']]
            npre_c = 0 if m.eval(cp, model_completion=True).as_long() == 0 else 2
            nw = len(nat_words(m))
            good = (len(occs) == 1 and occs[0]['text'] == str(n) and occs[0]['value'] == float(n)
                    and not occs[0]['is_ordinal'] and occs[0]['start'] == npre_c and occs[0]['end'] == npre_c + 2 * nw - 1)
        if good:
            return {'key': {}, 'what': '', 'reproduced': False, 'replay': rep}
        cw = culprit_word(nat, code, nat_words(m), skip=(L.conj,))
        return {'key': {'lang': code, 'word': cw}, 'reproduced': True, 'replay': rep, 'culprit': cw,
                'what': '%s: scanner on %r gives %s, expected one occurrence %d' % (
                    code, ''.join(words), [(o['text'], o['start'], o['end']) for o in r.get('ok', {}).get('batch', [])], n)}

    def block_s(m, cex):
        if cex.get('culprit') is None:
            return None
        return block_word([slots], cex['culprit'])
    ck.prove_none('%s/%s:scanner%s' % (code, nd, ':ctx' if with_context else ''), assm_s, bad2, on_cex_s, block_s)
    ck.cover('%s/%s:scanner%s:ok' % (code, nd, ':ctx' if with_context else ''), assm_s + [z3.Or(*ok2)] if ok2 else [False],
             lambda m: {'lang': code, 'n': digs.value_of(m), 'tokens': [t.text for t in concrete_tokens(tslots, m)]})
    return res2


def strings_value_is(val, digs):
    """exact value (BV128 numerator) equals n"""
    n = z3.BitVecVal(0, 128)
    for i, d in enumerate(digs.D):
        n = n + z3.ZeroExt(120, d) * z3.BitVecVal(10 ** i, 128)
    return bv(val.num, 128) == n if is_sym(val.num) else z3.BitVecVal(val.num, 128) == n


def run(ck: Check):
    langs = list(LANGS)
    only = __import__('os').environ.get('VERIF_LANGS')
    if only:
        langs = [c for c in langs if c in only.split(',')]
    if ck.tier == 'quick':
        jobs = [(c, d) for c in langs for d in ('low6', 'sparse')]
    else:
        jobs = [(c, 'full12') for c in langs]
    run_parallel(ck, worker, jobs)
    ck.outside.append('quick: integers outside the two domains n < 10^6 and "sparse" (units group free, one digit in each of '
                      'the thousands/millions/billions groups); thorough: integers >= 10^12')
    ck.outside.append('sentence contexts other than: optional ordinary word before, optional space/comma/semicolon + '
                      'ordinary word or a full stop after')
    ck.assumptions.append('the spelling of n is the one produced by the reference spellers in /verif/oracle/langs.py '
                          '(standard orthography and the listed variants)')
    return ('For each language the twelve decimal digits of n and the orthographic variant flags are solver variables; '
            'the reference speller turns them into word slots; text2digits and find_numbers are executed from MIR over '
            'the slots (merging states between words) and z3 decides that the result is Ok(decimal(n)) resp. exactly one '
            'occurrence with text decimal(n), value n, not ordinal, spanning exactly the number words.')

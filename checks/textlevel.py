"""Text-level harness: texts made of solver-chosen parts run through the real text pipeline
(tokenize -> basic_annotate -> find_numbers / replace_numbers_in_stream -> join) from MIR.

The tokenizer itself is abstracted on such texts (it cuts them at the part boundaries, which is exactly what C02's
character-level obligation establishes for arbitrary characters); everything after it is executed from MIR."""
import z3
from .common import Check, new_executor, Inconclusive
from .spelled import *
from .stream import stream_alphabet
from mirsym import harness as H
from mirsym.values import *
from oracle.langs import LANGS

DRIVER = """
fn harness::text_find(_1: &str, _2: &L, _3: f64) -> Vec<Occurence> {
    let mut _0: Vec<Occurence>;
    let mut _4: Tokenize<'_>;
    let mut _5: Vec<BasicToken>;
    let mut _6: &mut Vec<BasicToken>;
    let mut _7: ();
    let mut _8: &Vec<BasicToken>;
    let mut _9: &[BasicToken];
    let mut _10: std::slice::Iter<'_, BasicToken>;

    bb0: {
        _4 = tokenize(copy _1) -> [return: bb1, unwind continue];
    }

    bb1: {
        _5 = <Tokenize<'_> as Iterator>::collect::<Vec<BasicToken>>(move _4) -> [return: bb2, unwind continue];
    }

    bb2: {
        _6 = &mut _5;
        _7 = <L as LangInterpreter>::basic_annotate::<BasicToken>(copy _2, move _6) -> [return: bb3, unwind continue];
    }

    bb3: {
        _8 = &_5;
        _9 = <Vec<BasicToken> as Deref>::deref(move _8) -> [return: bb4, unwind continue];
    }

    bb4: {
        _10 = core::slice::<impl [BasicToken]>::iter(copy _9) -> [return: bb5, unwind continue];
    }

    bb5: {
        _0 = find_numbers::<L, &BasicToken, std::slice::Iter<'_, BasicToken>>(move _10, copy _2, copy _3) -> [return: bb6, unwind continue];
    }

    bb6: {
        return;
    }
}
"""


def text_executor(ck, assumptions, cap=16):
    ex = new_executor(list(assumptions), cap=cap)
    H.install_text_level(ex)
    ex.shape_ignore = {'Occurence'}
    if 'harness::text_find' not in ex.mir.functions:
        ex.mir.add_synthetic(DRIVER)
    return ex


def text_find(ex, L, text, thr):
    lang = H.lang_value(ex, L.type_name)
    return ex.explore('harness::text_find', [text, lang, thr])


def text_validate(ex, L, text):
    lang = H.lang_value(ex, L.type_name)
    return ex.explore('text2digits', [text, lang])


def parts_text(word_slots, sep_slots, lead=None, trail=None):
    """interleave: [lead] w0 s0 w1 s1 ... w(k-1) [trail]"""
    slots = []
    if lead is not None:
        slots.append(tuple(lead))
    for i, w in enumerate(word_slots):
        slots.append(tuple(w))
        if i < len(word_slots) - 1:
            slots.append(tuple(sep_slots[i]))
    if trail is not None:
        slots.append(tuple(trail))
    return H.SlotText(tuple(slots))


def concrete_text(text, m):
    out = []
    for alts in text.slots:
        hit = [t for c, t in alts if c is True or (c is not False and z3.is_true(m.eval(c, model_completion=True)))]
        if len(hit) != 1:
            raise Inconclusive('text part alternatives not exclusive in the model (%d)' % len(hit))
        out.append(hit[0])
    return ''.join(out), out


def merged_occs(results, cov=None):
    v = merged(cov if cov is not None else [], results)
    if not isinstance(v, Seq):
        raise Inconclusive('not a sequence of occurrences')
    return v


def occs_equal(A, Bv, shift_a=0, shift_b=0, text_only=False):
    """z3 Bool: same occurrences (text, ordinal flag; spans up to the given token shifts)"""
    from .c14 import values_equal
    na, nb = B64(A.len), B64(Bv.len)
    conds = [na == nb]
    ea = [o for o in A.elems if o is not UNINIT and o is not None]
    eb = [o for o in Bv.elems if o is not UNINIT and o is not None]
    for j in range(max(len(ea), len(eb))):
        if j < len(ea) and j < len(eb):
            fa, fb = ea[j].fields, eb[j].fields
            same = [values_equal(fa[2], fb[2]), ZB(fa[4]) == ZB(fb[4])]
            if not text_only:
                same += [B64(fa[0]) + shift_a == B64(fb[0]) + shift_b, B64(fa[1]) + shift_a == B64(fb[1]) + shift_b]
            conds.append(z3.Implies(z3.UGT(na, j), z3.And(*same)))
        else:
            conds.append(z3.ULE(na, j))
    return z3.And(*conds)

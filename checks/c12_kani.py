"""Kani/CBMC cross-check of C12 (thorough tier): the DigitString obligations O1-O3, O5 decided a second time by an
independent engine (CBMC bit-blasting of the *compiled* crate, with CBMC's own model of Vec and slices) on concrete
buffer lengths 0..6 with symbolic digit contents.  A disagreement with the MIR executor is reported as inconclusive
(exit 2): one of the two encodings is then wrong and nothing is believed."""
import os
import re
import shutil
import subprocess
import tempfile
import time
from .common import VERIF, REPO


def run_kani(ck, mirsym_found_violation, jobs=None):
    scratch_root = os.environ.get('VERIF_SCRATCH', '/var/tmp')
    work = tempfile.mkdtemp(prefix='t2n-kani-', dir=scratch_root)
    t0 = time.time()
    try:
        crate = os.path.join(work, 'crate')
        shutil.copytree(os.path.join(VERIF, 'kani'), crate, ignore=shutil.ignore_patterns('target'))
        toml = open(os.path.join(crate, 'Cargo.toml')).read().replace('path = "/repo"', 'path = "%s"' % REPO)
        open(os.path.join(crate, 'Cargo.toml'), 'w').write(toml)
        lock = os.path.join(REPO, 'Cargo.lock')
        if os.path.exists(lock):
            shutil.copy(lock, os.path.join(crate, 'Cargo.lock'))
        nh = len(open(os.path.join(crate, 'src', 'cases.rs')).read().strip().splitlines())
        j = jobs or min(16, os.cpu_count() or 4)
        env = dict(os.environ, CARGO_NET_OFFLINE='true')
        cmd = 'ulimit -v 40000000; cd %s && exec timeout 3000 cargo kani -j %d --output-format terse --target-dir %s' % (
            crate, j, os.path.join(work, 'target'))
        p = subprocess.run(['bash', '-c', cmd], env=env, stdout=subprocess.PIPE, stderr=subprocess.STDOUT, text=True)
        out = p.stdout
        ok = re.search(r'Complete - (\d+) successfully verified harnesses, (\d+) failures, (\d+) total', out)
        failed = re.findall(r'Verification failed for - (\S+)', out)
        info = {'harnesses': nh, 'wall_s': round(time.time() - t0, 1), 'kani': 'kani 0.68.0 / CBMC 6.11.0 (cadical)',
                'bounds': 'buffer length 0..6 (concrete per harness), argument length 1..3, positions 0..len+1, unwind 14'}
        ck.obligations += 1
        if ok and int(ok.group(3)) == nh and int(ok.group(2)) == 0 and 'VERIFICATION:- FAILED' not in out:
            info['verified'] = int(ok.group(1))
            ck.discharged += 1
            ck.notes.append('Kani/CBMC cross-check: %d harnesses verified in %.0fs' % (nh, time.time() - t0))
        elif ok and (int(ok.group(2)) > 0 or failed):
            info['failed_harnesses'] = sorted(set(failed))[:20]
            if mirsym_found_violation:
                # both engines see a violation: the replayed MIR counterexample is the one reported
                ck.notes.append('Kani/CBMC cross-check agrees: failing harnesses %s' % ', '.join(info['failed_harnesses'][:6]))
            else:
                ck.inconclusive.append('ENGINES-DISAGREE: Kani/CBMC refutes %s while the MIR executor proved every obligation'
                                       % ', '.join(info['failed_harnesses'][:6]))
        else:
            tail = out[-600:].replace('\n', ' | ')
            ck.inconclusive.append('Kani/CBMC cross-check did not complete (exit %s): %s' % (p.returncode, tail))
        ck.samples.append({'kani_cross_check': info})
        if 'Kani/CBMC (cargo kani, CBMC 6.11.0) for the cross-check' not in ck.assumptions:
            ck.assumptions.append('Kani/CBMC (cargo kani, CBMC 6.11.0) for the cross-check')
    finally:
        shutil.rmtree(work, ignore_errors=True)

"""C09 Lone-number policy: the threshold only hides small isolated numbers."""
import math
import os
import z3
from .common import Check, run_parallel, Inconclusive
from .stream import *
from .stream import _trim
from .c14 import values_equal
from .c06 import byte_at
from oracle.langs import LANGS
from mirsym.strings import F64Exact, F64Recip, F64Dec, to_symstr

THRESHOLDS_QUICK = [10.0, 3.0, float('nan'), -1.0]
THRESHOLDS_THOROUGH = [10.0, 3.0, 1.0, 21.0, float('nan'), -1.0, float('inf')]


EN_QUICK = ['zero', 'one', 'nine', 'ten', 'twenty', 'hundred', 'million', 'and', 'point', 'first', 'second', 'twentieth',
            'o', 'xyz', 'ah', 'thirds']


def occ_list(v):
    out = []
    for o in v.elems:
        if o is UNINIT or o is None:
            continue
        out.append(o.fields)
    return B64(v.len), out


def same_occ(a, b):
    return z3.And(B64(a[0]) == B64(b[0]), B64(a[1]) == B64(b[1]), values_equal(a[2], b[2]), ZB(a[4]) == ZB(b[4]))


def value_lt(val, t):
    """exact: value < t for the reported value (t concrete)"""
    if math.isnan(t):
        return z3.BoolVal(False)
    if isinstance(val, Choice):
        return z3.Or(*[z3.And(ZB(c) if not isinstance(c, bool) else z3.BoolVal(c), value_lt(v, t)) for c, v in val.alts])
    if isinstance(val, F64Recip) and t > 0:
        # 1/x < t  <=>  x > 1/t for x > 0; x == 0 gives +inf (never below t).  x is an exact integer here, so the rounded
        # 1/t decides correctly unless x == 1/t exactly, which needs 1/t integral: then the float is exact as well
        def cmpc(op, c):
            r_ = val.inner.compare_const(op, c)
            if isinstance(r_, tuple):
                return z3.And(r_[1], r_[2])
            if r_ is None:
                v_ = val.inner.to_fp()
                if is_sym(v_):
                    raise Inconclusive('value comparison not decidable exactly')
                return z3.BoolVal({'Eq': v_ == c, 'Gt': v_ > c}[op])
            return ZB(r_) if not isinstance(r_, bool) else z3.BoolVal(r_)
        return z3.And(z3.Not(cmpc('Eq', 0.0)), cmpc('Gt', 1.0 / t))
    if isinstance(val, (F64Exact, F64Dec, F64Recip)):
        r = val.compare_const('Lt', t)
        if isinstance(r, tuple):
            return z3.And(r[1], r[2])
        if r is None:
            v_ = val.to_fp()
            if is_sym(v_):
                raise Inconclusive('value comparison not decidable exactly')
            return z3.BoolVal(v_ < t)
        return ZB(r)
    if isinstance(val, float):
        return z3.BoolVal(val < t)
    raise Inconclusive('value of type %r' % type(val))


def single_digit(text):
    if isinstance(text, Choice):
        return z3.Or(*[z3.And(ZB(c) if not isinstance(c, bool) else z3.BoolVal(c), single_digit(v)) for c, v in text.alts])
    return B64(to_symstr(text).seq.len) == 1


def worker(ck: Check, job):
    code, thr = job
    L = LANGS[code]
    # tiers: quick = one word per role (QUICK_WORDS); thorough = one word per behaviour class of the core alphabet;
    # VERIF_DEEP=1 = every behaviour class, 4 words (not validated within the build time)
    tiny = ck.tier == 'quick'
    quick = not os.environ.get('VERIF_DEEP')
    k = 3 if quick else 4
    reps, classes = stream_alphabet(ck, code, quick)
    if tiny:
        from oracle.langs import QUICK_WORDS
        reps = list(QUICK_WORDS[code])
    reps = [r for r in reps if r not in ('12',)]
    if quick and code == 'es':
        # the Spanish fraction word (value 1/n) makes the policy assertion a hard arithmetic query; the policy does not
        # distinguish it from other multi-character numerals, so the quick tier leaves it out (thorough keeps it)
        reps = [r for r in reps if r != 'doceavo']
    if quick and code == 'en':
        # English has the largest alphabet (26 behaviour classes); the quick tier keeps one word per role of the policy
        reps = [r for r in reps if r in EN_QUICK]
    st = Stream(code, reps, k)
    mir, res, th, mh = load_mir()
    # token attributes of the policy oracle (from the property statement; the linking-word set is the language's
    # INSIGNIFICANT vocabulary, evaluated through the interpreter's is_linking on the word as given)
    exq = new_executor()
    lang = H.lang_value(exq, L.type_name)
    fns = interpreter_fns(exq, L)

    def linking(w):
        r = exq.explore(fns['is_linking'], [lang, w])
        return len(r) == 1 and r[0].ret is True

    def ignorable_word(w):
        # linking words: the language's INSIGNIFICANT vocabulary and its conjunction ("and" is a linking word in every
        # language; Dutch merely lists it with the number words instead of the INSIGNIFICANT set)
        return linking(w) or strings.rust_lowercase(w) == L.conj or not any(strings._alpha(ord(c)) for c in w)

    def ignorable_sep(sp):
        return _trim(sp) != '.'
    ign = []
    for i in range(st.ntok):
        if i % 2 == 0:
            ign.append(st.word_attr(i // 2, ignorable_word))
        else:
            ign.append(st.sep_attr(i // 2, ignorable_sep))
    name = '%s:thr=%s' % (code, thr)
    ex0 = make_executor(ck, st.assm)
    ex0.shape_ignore = {'Occurence'}
    r0 = run_scanner(ck, ex0, L, st.slots, 0.0)
    ck.absorb(ex0)
    ext = make_executor(ck, st.assm)
    ext.shape_ignore = {'Occurence'}
    rt = run_scanner(ck, ext, L, st.slots, thr)
    ck.absorb(ext)
    cov = []
    O0 = merged(cov, r0)
    Ot = merged(cov, rt)
    n0, occ0 = occ_list(O0)
    nt, occt = occ_list(Ot)
    hide_nothing = math.isnan(thr) or thr <= 0
    bad = []
    # (1) occ(t) is a sub-sequence of occ(0)
    for i, a in enumerate(occt):
        member = z3.Or(*[z3.And(z3.UGT(n0, j), same_occ(a, b)) for j, b in enumerate(occ0)]) if occ0 else z3.BoolVal(False)
        bad.append(('occurrence %d at threshold %s is not among those recognised at threshold 0' % (i, thr),
                    z3.And(z3.UGT(nt, i), z3.Not(member))))
    # (2) membership <=> not small or adjacent to a number of the same kind
    for j, b in enumerate(occ0):
        present = z3.Or(*[z3.And(z3.UGT(nt, i), same_occ(a, b)) for i, a in enumerate(occt)]) if occt else z3.BoolVal(False)
        if hide_nothing:
            expected = z3.BoolVal(True)
        else:
            small = z3.And(z3.Or(single_digit(b[2]), ZB(b[4])), value_lt(b[3], thr))
            adj = []
            for j2, c in enumerate(occ0):
                if j2 == j:
                    continue
                lo_end, hi_start = (B64(b[1]), B64(c[0])) if j2 > j else (B64(c[1]), B64(b[0]))
                # neighbours in stream order: j2 == j+1 or j2 == j-1 (occurrences are ordered)
                if abs(j2 - j) != 1:
                    continue
                between_ok = z3.And(*[z3.Or(z3.ULT(z3.BitVecVal(x, 64), lo_end), z3.UGE(z3.BitVecVal(x, 64), hi_start), ign[x])
                                      for x in range(st.ntok)])
                adj.append(z3.And(z3.UGT(n0, j2), ZB(c[4]) == ZB(b[4]), between_ok))
            expected = z3.Or(z3.Not(small), *adj)
        bad.append(('number %d recognised at threshold 0 is %s at threshold %s against the policy' % (j, 'kept/dropped', thr),
                    z3.And(z3.UGT(n0, j), present != expected)))
    for e in (ex0, ext):
        bad += [('panic: %s %s at %s' % (p.kind, p.msg, p.where), c) for p, c in zip(e.panics, conds_of(e.panics))]

    def on_cex(m, fired=None):
        toks = st.concrete(m)
        nat = ck.native()
        ra = nat.find(code, toks, 0.0)
        rb = nat.find(code, toks, thr)
        rep = {'lang': code, 'threshold': repr(thr), 'tokens': [t[0] for t in toks], 'at_0': ra.get('ok', ra), 'at_t': rb.get('ok', rb)}
        if 'ok' not in ra or 'ok' not in rb:
            return {'key': {'lang': code, 'kind': 'panic'}, 'reproduced': True, 'replay': rep, 'what': 'panic'}
        a = [native_occ(o) for o in ra['ok']['batch']]
        b = [native_occ(o) for o in rb['ok']['batch']]
        problems = policy_problems(a, b, toks, thr, ignorable_word, ignorable_sep)
        kind = problems[0][0] if problems else ''
        inner = [t[0] for t in toks[2:-2:2]]
        if kind == 'policy' and any(strings.rust_lowercase(w_) == L.decimal_sep for w_ in inner):
            # role of a listed finding: the decimal separator word stands between two numbers without starting a fraction
            kind = 'separator-word-between-numbers'
        return {'key': {'kind': kind} if kind == 'separator-word-between-numbers' else {'lang': code, 'kind': kind},
                'reproduced': bool(problems), 'replay': rep,
                'what': '%s thr=%r tokens %r: at 0 %r, at t %r: %s' % (code, thr, [t[0] for t in toks],
                                                                        [(o['start'], o['end'], o['text']) for o in a],
                                                                        [(o['start'], o['end'], o['text']) for o in b],
                                                                        '; '.join(p[1] for p in problems[:2]))}
    def block(m, cex):
        if cex['key'].get('kind') == 'separator-word-between-numbers':
            idx = [j for j, r in enumerate(reps) if strings.rust_lowercase(r) == L.decimal_sep]
            inner_pos = range(1, k - 1)
            return z3.Not(z3.Or(*[st.w[i] == j for i in inner_pos for j in idx])) if idx and k > 2 else None
        return None
    split = [[st.w[i] == j for j in range(len(reps))] for i in range(k)]
    ck.prove_none(name, st.assm, guard(cov, bad), on_cex, block, case_split=split)
    if not hide_nothing:
        ck.cover(name + ':held-and-dropped', st.assm + [z3.UGT(n0, nt)], lambda m: {'lang': code, 'tokens': [t[0] for t in st.concrete(m)]})
    ck.cover(name + ':kept', st.assm + [z3.UGE(nt, 2)], lambda m: {'lang': code, 'tokens': [t[0] for t in st.concrete(m)]})
    ck.bounds['stream_words'] = k
    ck.per_lang[code] = {'behaviour_classes_used': len(reps)}


def _key(o):
    return (o['start'], o['end'], o['text'], o['is_ordinal'])


def policy_problems(a, b, toks, thr, ignorable_word, ignorable_sep):
    problems = []
    keys_a = [_key(o) for o in a]
    for o in b:
        if _key(o) not in keys_a:
            problems.append(('not-subset', 'occurrence %r at the threshold is not recognised at threshold 0' % (_key(o),)))
    kb = [_key(o) for o in b]
    # order preserved
    idx = [keys_a.index(x) for x in kb if x in keys_a]
    if idx != sorted(idx):
        problems.append(('order', 'occurrences at the threshold are out of stream order'))

    def ign(x):
        t = toks[x][0]
        return ignorable_word(t) if x % 2 == 0 else ignorable_sep(t)
    hide_nothing = math.isnan(thr) or thr <= 0
    for j, o in enumerate(a):
        small = (len(o['text']) == 1 or o['is_ordinal']) and o['value'] < thr
        adj = False
        for j2 in (j - 1, j + 1):
            if 0 <= j2 < len(a) and a[j2]['is_ordinal'] == o['is_ordinal']:
                lo, hi = (o['end'], a[j2]['start']) if j2 > j else (a[j2]['end'], o['start'])
                if all(ign(x) for x in range(lo, hi)):
                    adj = True
        expected = True if hide_nothing else (not small or adj)
        present = _key(o) in kb
        if present != expected:
            problems.append(('policy', 'number %r is %s but the policy says %s (small=%s, adjacent same kind=%s)' % (
                o['text'], 'rewritten' if present else 'left in words', 'rewrite' if expected else 'leave', small, adj)))
    return problems


def run(ck: Check):
    import os
    langs = list(LANGS)
    only = os.environ.get('VERIF_LANGS')
    if only:
        langs = [c for c in langs if c in only.split(',')]
    deep = bool(os.environ.get('VERIF_DEEP'))
    ths = THRESHOLDS_THOROUGH if deep else THRESHOLDS_QUICK
    if not deep:
        # the threshold comparison is language independent: every language at 10, the other representatives on English only
        jobs = [(c, 10.0) for c in langs] + [('en', t) for t in ths if t != 10.0 and 'en' in langs]
    else:
        jobs = [(c, t) for c in langs for t in ths]
    run_parallel(ck, worker, jobs)
    ck.bounds['thresholds'] = [repr(t) for t in ths]
    ck.outside += ['streams of more than 3 word tokens', 'quick: words other than one per role (oracle QUICK_WORDS); thorough: words other than one per behaviour class of the core alphabet', 'thresholds other than the listed concrete ones',
                   'tokens that are neither words, whitespace nor punctuation (bare digit strings): not classified by the statement',
                   'quick: Spanish fraction words (doceavo)']
    ck.assumptions.append('linking words are those for which the interpreter\'s is_linking answers true on the lower-cased token text, and the language\'s conjunction; 1/x values (Spanish fractions) are compared with the threshold through x exactly')
    return ('For every stream of k words (solver-chosen words and separators) find_numbers is executed from MIR at threshold 0 '
            'and at each listed threshold; z3 decides that the occurrences at the threshold are a sub-sequence of those at 0 and '
            'that a number recognised at 0 is kept exactly when it is not small (single digit or ordinal, value < t) or has a '
            'neighbour of the same kind with only ignorable tokens between (oracle written from the property statement).')

"""Shared machinery of the checks that run spelled numbers (slots from the reference spellers) through the
validator (text2digits) and the scanner (find_numbers) symbolically."""
import z3
from .common import Check, new_executor, Inconclusive
from mirsym.values import *
from mirsym import harness as H
from mirsym import strings
from mirsym.native import bits_f64
from oracle.base import Digits, concrete_phrase, decimal_matches, AND, OR, NOT


def B64(x):
    return bv(x, 64) if is_sym(x) else z3.BitVecVal(int(x), 64)


def ZB(x):
    return x if is_sym(x) else z3.BoolVal(bool(x))


def pc(r):
    return z3.And(*[c for c in r.cond if not isinstance(c, bool)]) if any(not isinstance(c, bool) for c in r.cond) \
        else z3.BoolVal(not any(c is False for c in r.cond))


def conds_of(records):
    out = []
    for p in records:
        cs = [c for c in (p.cond if hasattr(p, 'cond') else p[0]) if not isinstance(c, bool)]
        if any(c is False for c in (p.cond if hasattr(p, 'cond') else p[0])):
            out.append(z3.BoolVal(False))
            continue
        out.append(z3.And(*cs) if cs else z3.BoolVal(True))
    return out


def slot_nonempty(alts):
    return OR(*[c for c, w in alts if w is not None])


def make_executor(ck, assumptions, cap=16):
    ex = new_executor(list(assumptions), cap=cap)
    ex.merge_hook = H.merge_hook
    return ex


def run_validator(ck, ex, L, slots):
    """-> list of PathResult of text2digits(phrase made of slots)"""
    lang = H.lang_value(ex, L.type_name)
    ph = H.SlotPhrase(tuple(tuple(s) for s in slots))
    res = ex.explore('text2digits', [ph, lang])
    return res


def word_token(w):
    return H.VTok(w, strings.rust_lowercase(w))


def token_slots(word_slots, prefix=(), suffix=()):
    """interleave word slots with single-space tokens; prefix/suffix: lists of slots of VTok alternatives
    -> (slots for TokIter, z3 term number_of_word_tokens, list of per-slot non-empty conds)"""
    slots = list(prefix)
    ne = [slot_nonempty(a) for a in word_slots]
    for j, alts in enumerate(word_slots):
        # a space precedes every word token except the first non-empty one
        earlier = OR(*ne[:j]) if j else False
        slots.append(tuple([(AND(ne[j], earlier), H.VTok(' ', ' ')), (NOT(AND(ne[j], earlier)), None)]))
        slots.append(tuple((c, word_token(w) if w is not None else None) for c, w in alts))
    slots += list(suffix)
    nwords = z3.BitVecVal(0, 64)
    for c in ne:
        nwords = nwords + z3.If(ZB(c) if not isinstance(c, bool) else z3.BoolVal(c), z3.BitVecVal(1, 64), z3.BitVecVal(0, 64))
    return tuple(slots), nwords, ne


def run_scanner(ck, ex, L, tok_slots, threshold=0.0):
    lang = H.lang_value(ex, L.type_name)
    it = H.TokIter(tok_slots)
    return ex.explore('find_numbers', [it, lang, threshold])


def occ_fields(o):
    """Occurence struct -> (start, end, text, value, is_ordinal)"""
    return o.fields


def concrete_tokens(tok_slots, m):
    toks = []
    for alts in tok_slots:
        hit = [t for c, t in alts if (c is True or (c is not False and z3.is_true(m.eval(c, model_completion=True))))]
        if len(hit) != 1:
            raise Inconclusive('token slot alternatives not exclusive/exhaustive in model (%d)' % len(hit))
        if hit[0] is not None:
            toks.append(hit[0])
    return toks


def tok_tuple(t, m=None):
    def b(x):
        if isinstance(x, bool):
            return x
        return z3.is_true(m.eval(x, model_completion=True))
    return (t.text, t.lower, b(t.sep), b(t.nan))


def native_occ(o):
    return {'start': o['start'], 'end': o['end'], 'text': o['text'], 'value': bits_f64(o['value']['bits']),
            'is_ordinal': o['is_ordinal']}


def culprit_word(nat, code, words, skip=()):
    """first word of the phrase that the validator rejects on its own (used to key known findings by word)"""
    for w in words:
        if w in skip:
            continue
        r = nat.t2d(code, w)
        if 'ok' not in r or 'Err' in r['ok']:
            return w
    return None


def block_word(slots_list, word):
    """constraint excluding every alternative that produces `word`"""
    conds = []
    for slots in slots_list:
        for alts in slots:
            for c, w in alts:
                ww = w.text if isinstance(w, H.VTok) else w
                if ww == word:
                    conds.append(c)
    if not conds:
        return None
    return NOT(OR(*conds))


def merged(cov, results):
    """merge the path results of one execution; cov collects the condition under which that execution ran to completion
    (inputs on which it was cut at a capacity bound, or panics, are not described by the merged value)"""
    cov.append(z3.Or(*[pc(r) for r in results]) if results else z3.BoolVal(False))
    return H.merged_result(results)


def guard(cov, bad):
    """restrict every non-panic bad condition to the inputs on which all merged executions completed"""
    c = z3.And(*cov) if cov else z3.BoolVal(True)
    return [(l, x) if 'panic' in l else (l, z3.And(c, x)) for l, x in bad]

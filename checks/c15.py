"""C15 Token-stream contract: the lazy iterator yields exactly the batch result, reads the stream on demand with bounded
look-ahead, and the per-token hints (nt_separated, not_a_number_part) are honoured."""
import z3
from .common import Check, run_parallel, Inconclusive
from .stream import *
from .c14 import values_equal
from oracle.langs import LANGS
from mirsym.intrinsics import Enumerate


def find_fn(ex, name):
    c = ex.res.find_impl('FindNumbers', 'Iterator' if name == 'next' else None, name)
    if len(c) != 1:
        raise Inconclusive('FindNumbers::%s not found (%r)' % (name, c))
    return ex.mir.functions[c[0]][-1]


def iter_pos(v, ex):
    """number of tokens taken from the input so far (concrete) for a FindNumbers state value"""
    inp = v.fields[1]
    if isinstance(inp, Choice):
        raise Inconclusive('input iterator is a Choice on a single path')
    inner = inp.inner if isinstance(inp, Enumerate) else inp
    return inner.pos


def worker(ck: Check, job):
    code, thr = job
    L = LANGS[code]
    quick = ck.tier == 'quick'
    k = 2 if quick else 3
    reps, classes = stream_alphabet(ck, code, True)
    ck.per_lang[code] = {'behaviour_classes_used': len(reps)}
    name = '%s:thr=%s' % (code, thr)
    st = Stream(code, reps, k, sym_flags=True)
    # ------------------------------------------------------------------ batch
    ex = make_executor(ck, st.assm)
    ex.shape_ignore = {'Occurence'}
    res_b = run_scanner(ck, ex, L, st.slots, thr)
    ck.absorb(ex)
    cov = []
    batch = merged(cov, res_b)
    if not isinstance(batch, Seq):
        raise Inconclusive('batch result is not a sequence')
    nb = B64(batch.len)
    panics_b = [('batch panic: %s %s at %s' % (p.kind, p.msg, p.where), c) for p, c in zip(ex.panics, conds_of(ex.panics))]

    # ------------------------------------------------------------------ (d) nan tokens are in no span ; (c1) separated
    bad = list(panics_b)
    for j, o in enumerate(batch.elems):
        if o is UNINIT or o is None:
            continue
        s_, e_ = B64(o.fields[0]), B64(o.fields[1])
        for i in range(st.ntok):
            inside = z3.And(z3.UGT(nb, j), z3.ULE(s_, i), z3.UGT(e_, i))
            bad.append(('nan-flagged token %d inside occurrence' % i, z3.And(inside, st.nanf[i])))
            if i >= 1:
                both = z3.And(z3.UGT(nb, j), z3.ULE(s_, i - 1), z3.UGT(e_, i))
                # the hint is honoured when a number is in progress; tokens i-1 and i in one span means it was ignored
                bad.append(('token %d declared separated from its predecessor but both are in one occurrence' % i,
                            z3.And(both, st.sepf[i], z3.Not(st.nanf[i]), z3.Not(st.nanf[i - 1]))))

    def tokens_of(m):
        return st.concrete(m)

    def on_cex(m, fired=None):
        toks = tokens_of(m)
        nat = ck.native()
        r = nat.find(code, toks, thr)
        rep = {'lang': code, 'threshold': thr, 'tokens': [(t[0], 'sep' if t[2] else '', 'nan' if t[3] else '') for t in toks],
               'native': r.get('ok', r)}
        if 'ok' not in r:
            return {'key': {'lang': code, 'kind': 'panic'}, 'reproduced': True, 'replay': rep,
                    'what': '%s: find_numbers panics: %s' % (code, r.get('panic'))}
        occs = [native_occ(o) for o in r['ok']['batch']]
        problems = []
        for o in occs:
            for i in range(o['start'], o['end']):
                if toks[i][3]:
                    ws = all(strings.char_is_whitespace(ord(c)) for c in toks[i][0]) or toks[i][0] == '-'
                    problems.append(('nan-skipped' if ws else 'nan-word', 'token %d %r flagged not-a-number-part is inside '
                                     'occurrence %d..%d %r' % (i, toks[i][0], o['start'], o['end'], o['text'])))
                if i > o['start'] and toks[i][2] and not toks[i][3] and not toks[i - 1][3]:
                    skipped = toks[i][0] == '-' or all(strings.char_is_whitespace(ord(c)) for c in toks[i][0])
                    problems.append(('separated-skipped' if skipped else 'separated', 'token %d %r is declared separated from its predecessor but both are in '
                                     'occurrence %r' % (i, toks[i][0], o['text'])))
        if thr == 0.0:
            flagged = [i for i, t in enumerate(toks) if t[2]]
            if len(flagged) == 1 and flagged[0] % 2 == 0 and flagged[0] > 0 and not any(t[3] for t in toks):
                i0 = flagged[0]
                ra, rb = nat.find(code, toks[:i0], 0.0), nat.find(code, toks[i0:], 0.0)
                if 'ok' in ra and 'ok' in rb:
                    exp = [(o['start'], o['end'], o['text'], o['is_ordinal']) for o in map(native_occ, ra['ok']['batch'])] + \
                          [(o['start'] + i0, o['end'] + i0, o['text'], o['is_ordinal']) for o in map(native_occ, rb['ok']['batch'])]
                    got = [(o['start'], o['end'], o['text'], o['is_ordinal']) for o in occs]
                    rep['as_if_comma'] = exp
                    if got != exp:
                        problems.append(('separated-not-comma', 'token %d %r is declared separated: expected %r (as after a spoken comma) '
                                         'but got %r' % (i0, toks[i0][0], exp, got)))
        lazy = [native_occ(o) for o in r['ok']['lazy']]
        if lazy != occs:
            problems.append(('lazy-differs', 'lazy iterator yields %r, batch %r' % (
                [(o['start'], o['end'], o['text']) for o in lazy], [(o['start'], o['end'], o['text']) for o in occs])))
        if r['ok']['before_first'] != 0:
            problems.append(('eager', 'find_numbers_iter consumed %d tokens before the first request' % r['ok']['before_first']))
        kind = problems[0][0] if problems else ''
        return {'key': {'lang': code, 'kind': kind}, 'reproduced': bool(problems), 'replay': rep,
                'what': '%s thr=%s tokens %r: %s' % (code, thr, rep['tokens'], '; '.join(p[1] for p in problems[:2]))}

    def block(m, cex):
        if cex['key'].get('kind') == 'nan-skipped':
            # exclude exactly the role: a nan flag on a whitespace/'-' token
            conds = []
            for i in range(st.k - 1):
                idx = 2 * i + 1
                skipped = st.sep_attr(i, lambda sp: sp == '-' or all(strings.char_is_whitespace(ord(c)) for c in sp))
                conds.append(z3.Not(z3.And(st.nanf[idx], skipped)))
            for i in range(st.k):
                skipped = st.word_attr(i, lambda w: w == '-' or all(strings.char_is_whitespace(ord(c)) for c in w))
                conds.append(z3.Not(z3.And(st.nanf[2 * i], skipped)))
            return z3.And(*conds)
        if cex['key'].get('kind') == 'separated-skipped':
            conds = []
            for i in range(st.k - 1):
                idx = 2 * i + 1
                skipped = st.sep_attr(i, lambda sp: sp == '-' or all(strings.char_is_whitespace(ord(c)) for c in sp))
                conds.append(z3.Not(z3.And(st.sepf[idx], skipped)))
            for i in range(st.k):
                skipped = st.word_attr(i, lambda w: w == '-' or all(strings.char_is_whitespace(ord(c)) for c in w))
                conds.append(z3.Not(z3.And(st.sepf[2 * i], skipped)))
            return z3.And(*conds)
        return None
    # (c2) "as if a comma had been spoken": at threshold 0, with exactly the separation hint of word i set (no other hint),
    # the result is the scan of the tokens before word i followed by the scan of the tokens from word i on (shifted):
    # the separated word is neither fused with its predecessor nor lost
    cov_c2 = []
    if thr == 0.0:
        from .c11 import seq_occ_equal as _unused   # noqa: F401  (same comparison, with a shift, written out below)
        for i in range(1, st.k):
            only_i = z3.And(st.sepf[2 * i], *[z3.Not(f_) for j_, f_ in enumerate(st.sepf) if j_ != 2 * i],
                            *[z3.Not(f_) for f_ in st.nanf])
            exp_ = make_executor(ck, st.assm + [only_i])
            exp_.shape_ignore = {'Occurence'}
            pre_occ = merged(cov_c2, run_scanner(ck, exp_, L, st.slots[:2 * i], 0.0))
            ck.absorb(exp_)
            exs_ = make_executor(ck, st.assm + [only_i])
            exs_.shape_ignore = {'Occurence'}
            suf_occ = merged(cov_c2, run_scanner(ck, exs_, L, st.slots[2 * i:], 0.0))
            ck.absorb(exs_)
            for e_ in (exp_, exs_):
                bad += [('panic: %s %s at %s' % (p.kind, p.msg, p.where), c) for p, c in zip(e_.panics, conds_of(e_.panics))]
            npre, nsuf = B64(pre_occ.len), B64(suf_occ.len)
            ep = [o.fields for o in pre_occ.elems if o is not UNINIT and o is not None]
            es = [o.fields for o in suf_occ.elems if o is not UNINIT and o is not None]
            eb = [o.fields for o in batch.elems if o is not UNINIT and o is not None]

            def same_(fa, fb, shift):
                return z3.And(B64(fa[0]) == B64(fb[0]) + shift, B64(fa[1]) == B64(fb[1]) + shift, values_equal(fa[2], fb[2]),
                              ZB(fa[4]) == ZB(fb[4]))
            conds = [nb == npre + nsuf]
            for j, fb_ in enumerate(eb):
                for a in range(len(ep) + 1):
                    if j < a:
                        if j < len(ep):
                            conds.append(z3.Implies(z3.And(npre == a, z3.UGT(nb, j)), same_(fb_, ep[j], 0)))
                    elif j - a < len(es):
                        conds.append(z3.Implies(z3.And(npre == a, z3.UGT(nb, j)), same_(fb_, es[j - a], 2 * i)))
                    else:
                        conds.append(z3.Implies(npre == a, z3.ULE(nb, j)))
            bad.append(('with the separation hint on word %d the result is not that of a spoken comma (scan of the tokens before '
                        'it followed by the scan from it on)' % i, z3.And(only_i, z3.And(*cov_c2), z3.Not(z3.And(*conds)))))
    ck.prove_none(name + ':hints', st.assm, guard(cov[:1], bad), on_cex, block)
    ck.cover(name + ':hints:witness', st.assm + [z3.UGE(nb, 1), z3.Or(*st.nanf), z3.Or(*st.sepf[1:])],
             lambda m: {'lang': code, 'tokens': tokens_of(m)})

    # ------------------------------------------------------------------ (a) lazy == batch, (b) on-demand reading
    # the iterator is driven by a small harness function written in MIR syntax: it calls the real
    # <FindNumbers as Iterator>::next until None, pushing the items into a Vec and probing the input position
    ex2 = make_executor(ck, st.assm)
    ex2.shape_ignore = {'Occurence'}
    if 'harness::drain_lazily' not in ex2.mir.functions:
        ex2.mir.add_synthetic(DRIVER)
    probes = []

    def probe(ex_, args):
        stv = ex_.deref(args[0])
        probes.append((list(ex_.pathcond), iter_pos(stv, ex_), args[1]))
        return UNIT
    ex2.intrinsics['harness::probe'] = probe
    lang = H.lang_value(ex2, L.type_name)
    r0 = ex2.explore('find_numbers_iter', [H.TokIter(st.slots), lang, thr])
    if len(r0) != 1:
        raise Inconclusive('find_numbers_iter has %d paths' % len(r0))
    state = r0[0].ret
    bad2 = [('find_numbers_iter consumed input before the first request', z3.BoolVal(iter_pos(state, ex2) != 0))]
    rl = ex2.explore('harness::drain_lazily', [Ref('root', 'it')], roots={'it': state})
    ck.absorb(ex2)
    lazy = merged(cov, rl)
    from .c11 import seq_occ_equal
    bad2.append(('the lazily yielded sequence differs from the batch result', z3.Not(seq_occ_equal_full(lazy, batch))))
    if thr == 0.0:
        rec = batch
    else:
        ex0 = make_executor(ck, st.assm)
        ex0.shape_ignore = {'Occurence'}
        rec = merged(cov, run_scanner(ck, ex0, L, st.slots, 0.0))
        ck.absorb(ex0)
    for cond, pos, item in probes:
        if isinstance(item, Choice):
            raise Inconclusive('probed item is a Choice')
        p1 = item.payload(1)
        if p1 is None:
            continue
        o = p1[0]
        c = z3.And(*[x for x in cond if not isinstance(x, bool)]) if any(not isinstance(x, bool) for x in cond) else z3.BoolVal(True)
        bound = lookahead_bound(rec, B64(o.fields[1]), st.ntok)
        bad2.append(('the iterator had read %d tokens when it returned an occurrence: beyond the second number after it' % pos,
                     z3.And(c, B64(item.disc) == 1, z3.UGT(z3.BitVecVal(pos, 64), bound))))
    bad2 += [('lazy panic: %s %s at %s' % (p.kind, p.msg, p.where), c) for p, c in zip(ex2.panics, conds_of(ex2.panics))]
    ck.prove_none(name + ':lazy', st.assm, guard(cov, bad2), on_cex, lambda m, c: None)
    ck.cover(name + ':lazy:witness', st.assm + [z3.UGE(nb, 2)], lambda m: {'lang': code, 'tokens': tokens_of(m)})
    ck.bounds['stream_words'] = k


DRIVER = """
fn harness::drain_lazily(_1: &mut FindNumbers) -> Vec<Occurence> {
    let mut _0: Vec<Occurence>;
    let mut _2: Option<Occurence>;
    let mut _3: isize;
    let mut _4: Occurence;
    let mut _5: &mut Vec<Occurence>;
    let mut _6: ();
    let mut _7: ();

    bb0: {
        _0 = Vec::<Occurence>::new() -> [return: bb1, unwind continue];
    }

    bb1: {
        _2 = <FindNumbers as Iterator>::next(copy _1) -> [return: bb2, unwind continue];
    }

    bb2: {
        _7 = harness::probe(copy _1, copy _2) -> [return: bb3, unwind continue];
    }

    bb3: {
        _3 = discriminant(_2);
        switchInt(move _3) -> [0: bb5, otherwise: bb4];
    }

    bb4: {
        _4 = move ((_2 as Some).0: Occurence);
        _5 = &mut _0;
        _6 = Vec::<Occurence>::push(move _5, move _4) -> [return: bb1, unwind continue];
    }

    bb5: {
        return;
    }
}
"""


def seq_occ_equal_full(A, Bv):
    from .c11 import seq_occ_equal
    return seq_occ_equal(A, Bv)


def lookahead_bound(rec, e_, ntok):
    """start of the second recognised number at or after position e_, plus one; ntok if there is none"""
    n = B64(rec.len)
    starts = []
    for j, z in enumerate(rec.elems):
        if z is UNINIT or z is None:
            continue
        starts.append((z3.And(z3.UGT(n, j), z3.UGE(B64(z.fields[0]), e_)), B64(z.fields[0])))
    bound = z3.BitVecVal(ntok, 64)
    # occurrences are in increasing order: the second qualifying one
    for a in range(len(starts) - 1, -1, -1):
        for b in range(len(starts) - 1, a, -1):
            ca, sa = starts[a]
            cb, sb = starts[b]
            # a is the first qualifying, b the next one
            first_a = z3.And(ca, *[z3.Not(starts[x][0]) for x in range(a)])
            next_b = z3.And(cb, *[z3.Not(starts[x][0]) for x in range(a + 1, b)])
            bound = z3.If(z3.And(first_a, next_b), sb + 1, bound)
    return bound


def values_equal_occ(a, b):
    if a is UNINIT or b is UNINIT or a is None or b is None:
        return z3.BoolVal(False)
    fa, fb = a.fields, b.fields
    conds = [B64(fa[0]) == B64(fb[0]), B64(fa[1]) == B64(fb[1]), values_equal(fa[2], fb[2]), ZB(fa[4]) == ZB(fb[4])]
    return z3.And(*conds)


def run(ck: Check):
    import os
    langs = list(LANGS)
    only = os.environ.get('VERIF_LANGS')
    if only:
        langs = [c for c in langs if c in only.split(',')]
    jobs = [(c, t) for c in langs for t in (10.0, 0.0)]
    run_parallel(ck, worker, jobs)
    ck.outside += ['streams of more than %d word tokens' % (2 if ck.tier == 'quick' else 3), 'thresholds other than 0.0 and 10.0',
                   'the "as if a comma had been spoken" equivalence is decided at threshold 0 for one separation hint on a word '
                   'token at a time (no other hint set); at other thresholds only: a separated token never shares an occurrence '
                   'with its predecessor']
    ck.assumptions.append('hint flags are free Booleans on every token; tokens are behaviour-class representatives')
    return ('Streams of k words with solver-chosen words, separators and hint flags: find_numbers and the FindNumbers '
            'iterator (constructed by find_numbers_iter, advanced by calling its MIR `next` repeatedly from merged states) are '
            'executed from MIR; z3 decides that the i-th lazily yielded item equals the i-th batch occurrence, that nothing is '
            'read before the first request and never beyond the second recognised number after the returned one, that no '
            'not-a-number-part token lies inside an occurrence and that a separated token never shares an occurrence with its '
            'predecessor.')

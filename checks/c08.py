"""C08 Numbers said one after another are not fused; digit dictation keeps every digit."""
import hashlib
import json
import os
import z3
from .common import Check, run_parallel, Inconclusive, VERIF
from .spelled import *
from .c16 import text_is, zeros_decimal_matches
from oracle.langs import LANGS
from mirsym.strings import to_symstr


from oracle.fusion import fusion_table, spellings, flag_assignments


def worker(ck: Check, job):
    code, part = job[0], job[1]
    L = LANGS[code]
    if part == 'pairs':
        pairs(ck, code, L, job[2] if len(job) > 2 else None)
    else:
        dictation(ck, code, L)


def two_digit(prefix):
    d = Digits(12, prefix)
    return d, d.domain('low2')


def pairs(ck, code, L, a_tens=None):
    R = fusion_table(code)
    da, ca = two_digit('a')
    db, cb = two_digit('b')
    fa_ = {k: z3.Bool('a_' + str(k)) for k in L.flags()}
    fb_ = {k: z3.Bool('b_' + str(k)) for k in L.flags()}
    use_conj = z3.Bool('joiner_is_conjunction')
    sa = L.cardinal_slots(da, fa_)
    sb = L.cardinal_slots(db, fb_)
    assm = ca + cb + list(L.side_constraints(da, fa_)) + list(L.side_constraints(db, fb_))
    if a_tens is not None:
        assm.append(da.D[1] == a_tens)       # the pairs of this language are split over parallel jobs by the tens digit of a
    # the conjunction joiner only between two non-zero numbers
    assm.append(z3.Implies(use_conj, z3.And(z3.Not(da.is_zero()), z3.Not(db.is_zero()))))
    if ck.tier == 'quick':
        # one speaker: both numbers use the same regional / orthographic variants (the thorough tier frees them)
        assm += [fa_[k_] == fb_[k_] for k_ in fa_]
        ck.outside.append('quick: the two numbers of a pair use the same spelling variants (regional tens, hyphenation, ...)')
        if code == 'fr':
            # standard (vigesimal) French only; septante/huitante/octante/nonante are in the thorough tier
            assm += [z3.Not(fa_[k_]) for k_ in ('sept', 'huit', 'oct', 'non')]
            ck.outside.append('quick: French regional tens (septante, huitante, octante, nonante)')
    slots = sa + [[(use_conj, L.conj), (z3.Not(use_conj), None)]] + sb
    tslots, nwords, ne = token_slots(slots)
    ex = make_executor(ck, assm)
    res = run_scanner(ck, ex, L, tslots, 0.0)
    ck.absorb(ex)
    A = da.D[1], da.D[0]
    Bd = db.D[1], db.D[0]

    def is_val(dg, v):
        return z3.And(dg.D[1] == v // 10, dg.D[0] == v % 10)
    # the fused reading as a function of (a, b): R is functional in (a, b) -- checked here -- so the allowed single number is
    # given by three digit terms defined once (not once per path)
    fused = {}
    for (a, b, c) in R:
        if fused.setdefault((a, b), c) != c:
            raise Inconclusive('fusion table not functional at (%d, %d)' % (a, b))
    dc = Digits(12, 'c')
    in_R = z3.Bool('pair_has_fused_reading')
    defs = [d == 0 for d in dc.D[3:]]
    pair_conds = []
    for (a, b), c in sorted(fused.items()):
        pa = z3.And(is_val(da, a), is_val(db, b))
        pair_conds.append(pa)
        defs.append(z3.Implies(pa, z3.And(dc.D[2] == c // 100, dc.D[1] == (c // 10) % 10, dc.D[0] == c % 10)))
    defs.append(in_R == (z3.Or(*pair_conds) if pair_conds else z3.BoolVal(False)))
    defs.append(z3.Implies(z3.Not(in_R), z3.And(dc.D[2] == 0, dc.D[1] == 0, dc.D[0] == 0)))
    defs += [z3.ULE(d, 9) for d in dc.D[:3]]
    assm = assm + defs
    one = z3.BitVecVal(1, 8)
    bad, oks = [], []
    for r in res:
        v = r.ret
        if not isinstance(v, Seq):
            raise Inconclusive('not a sequence')
        n = B64(v.len)
        occ = [o.fields for o in v.elems if o is not UNINIT and o is not None]
        allowed = []
        if len(occ) >= 2:
            both = z3.And(n == 2, decimal_matches(occ[0][2], da), decimal_matches(occ[1][2], db),
                          z3.Not(da.is_zero()))
            allowed.append(both)
            # a zero after a number starts a new numeral: covered by `both` with b == 0
        if len(occ) >= 1:
            t0 = occ[0][2]
            allowed.append(z3.And(n == 1, in_R, decimal_matches(t0, dc)))
            # leading zero attaches to the following number; zero zero -> 00
            allowed.append(z3.And(n == 1, da.is_zero(), z3.Not(use_conj), zeros_decimal_matches(t0, one, 1, db)))
        good = z3.Or(*allowed) if allowed else z3.BoolVal(False)
        bad.append(('outcome outside {a b, fused standard number}', z3.And(pc(r), z3.Not(good))))
        oks.append(z3.And(pc(r), good))
    bad += [('panic: %s %s at %s' % (p.kind, p.msg, p.where), c) for p, c in zip(ex.panics, conds_of(ex.panics))]
    Rset = set(R)

    def on_cex(m, fired=None):
        a, b = da.value_of(m), db.value_of(m)
        toks = concrete_tokens(tslots, m)
        nat = ck.native()
        r = nat.find(code, [tok_tuple(t, m) for t in toks], 0.0)
        rep = {'lang': code, 'a': a, 'b': b, 'tokens': [t.text for t in toks], 'native': r.get('ok', r)}
        if 'ok' not in r:
            return {'key': {'lang': code, 'kind': 'panic'}, 'reproduced': True, 'replay': rep, 'what': 'panic'}
        texts = [o['text'] for o in r['ok']['batch']]
        conj = z3.is_true(m.eval(use_conj, model_completion=True))
        ok_ = False
        if a != 0 and texts == [str(a), str(b)]:
            ok_ = True
        if len(texts) == 1 and texts[0].isdigit() and (a, b, int(texts[0])) in Rset and str(int(texts[0])) == texts[0]:
            ok_ = True
        if a == 0 and not conj and texts == ['0' + str(b)]:
            ok_ = True
        bw = [w for w in concrete_phrase(sb, m)]
        units = set(x for x in (getattr(L, 'UNITS', []) or []) if x)
        # role of a listed finding: the second number is written as several separate words and starts with a unit word
        # (French 'quatre vingt ...'), so a greedy left-to-right reading attaches that unit to the first number
        role = 'unit-led-second-number' if len(bw) > 1 and bw[0] in units else 'fusion'
        return {'key': {'lang': code, 'kind': 'fusion', 'a': a, 'b': b, 'role': role}, 'reproduced': not ok_, 'replay': rep,
                'what': '%s: %r (a=%d, b=%d) is rewritten as %r' % (code, ''.join(t.text for t in toks), a, b, texts)}
    def block(m, cex):
        if cex['key'].get('role') == 'unit-led-second-number' and code == 'fr':
            # exclude exactly that role: b = 80..99 in the vigesimal spelling, written with spaces
            t = db.D[1]
            led = z3.And(z3.Not(fb_['hy0']), z3.Or(z3.And(t == 8, z3.Not(fb_['huit']), z3.Not(fb_['oct'])),
                                                   z3.And(t == 9, z3.Not(fb_['non']))))
            return z3.Not(led)
        return None
    tag = '%s:pairs' % code if a_tens is None else '%s:pairs:a=%dx' % (code, a_tens)
    ck.prove_none(tag, assm, bad, on_cex, block)
    ck.cover(tag + ':kept-apart', assm + [z3.Or(*[z3.And(pc(r), B64(r.ret.len) == 2) for r in res])],
             lambda m: {'lang': code, 'tokens': [t.text for t in concrete_tokens(tslots, m)]})
    if not a_tens:
        ck.cover(tag + ':fused', assm + [z3.Or(*[z3.And(pc(r), B64(r.ret.len) == 1) for r in res]), z3.Not(da.is_zero())],
                 lambda m: {'lang': code, 'tokens': [t.text for t in concrete_tokens(tslots, m)]})
    ck.per_lang[code] = {'fusion_triples': len(R)}


def dictation(ck, code, L):
    quick = ck.tier == 'quick'
    lmax = 5 if quick else 8
    D = [z3.BitVec('dig%d' % j, 8) for j in range(lmax)]
    ln = z3.BitVec('ndigits', 8)
    assm = [z3.ULE(d, 9) for d in D] + [z3.UGE(ln, 1), z3.ULE(ln, lmax)]
    dw = L.digit_words()
    slots = [[(z3.And(z3.UGT(ln, j), D[j] == v), dw[v]) for v in range(10)] + [(z3.ULE(ln, j), None)] for j in range(lmax)]
    tslots, nwords, ne = token_slots(slots)
    ex = make_executor(ck, assm)
    res = run_scanner(ck, ex, L, tslots, 0.0)
    ck.absorb(ex)
    # expected grouping: group index of digit j = number of non-zero digits before j
    L64 = z3.ZeroExt(56, ln)
    g = [z3.BitVecVal(0, 64)]
    for j in range(lmax):
        g.append(g[j] + z3.If(z3.And(D[j] != 0, z3.ULT(z3.BitVecVal(j, 64), L64)), z3.BitVecVal(1, 64), z3.BitVecVal(0, 64)))
    nonzero_total = g[lmax]
    last_zero = z3.Or(*[z3.And(L64 == j + 1, D[j] == 0) for j in range(lmax)])
    exp_n = nonzero_total + z3.If(last_zero, z3.BitVecVal(1, 64), z3.BitVecVal(0, 64))
    bad, oks = [], []
    for r in res:
        v = r.ret
        n = B64(v.len)
        occ = [o.fields for o in v.elems if o is not UNINIT and o is not None]
        conds = [n == exp_n]
        for i, o in enumerate(occ):
            if isinstance(o[2], Choice):
                raise Inconclusive('text is a Choice')
            s = to_symstr(o[2]).seq
            # digits of group i: those j < ln with g[j] == i ; they are consecutive starting at first_i
            cnt = z3.BitVecVal(0, 64)
            first = z3.BitVecVal(lmax, 64)
            for j in range(lmax - 1, -1, -1):
                in_g = z3.And(z3.ULT(z3.BitVecVal(j, 64), L64), g[j] == i)
                cnt = cnt + z3.If(in_g, z3.BitVecVal(1, 64), z3.BitVecVal(0, 64))
                first = z3.If(in_g, z3.BitVecVal(j, 64), first)
            cs = [B64(s.len) == cnt]
            for p in range(s.cap):
                e = bv(s.elems[p], 8) if is_sym(s.elems[p]) else z3.BitVecVal(s.elems[p], 8)
                exp = z3.BitVecVal(48, 8)
                for j in range(lmax):
                    exp = z3.If(first + p == j, D[j] + 48, exp)
                cs.append(z3.Implies(z3.ULT(z3.BitVecVal(p, 64), cnt), e == exp))
            conds.append(z3.Implies(z3.UGT(n, i), z3.And(*cs)))
        good = z3.And(*conds)
        bad.append(('dictated digits regrouped or lost', z3.And(pc(r), z3.Not(good))))
        oks.append(z3.And(pc(r), good))
    bad += [('panic: %s %s at %s' % (p.kind, p.msg, p.where), c) for p, c in zip(ex.panics, conds_of(ex.panics))]

    def expected(ds):
        out, cur = [], ''
        for ch in ds:
            cur += ch
            if ch != '0':
                out.append(cur)
                cur = ''
        if cur:
            out.append(cur)
        return out

    def on_cex(m, fired=None):
        n = m.eval(ln, model_completion=True).as_long()
        ds = ''.join(str(m.eval(D[j], model_completion=True).as_long()) for j in range(n))
        toks = concrete_tokens(tslots, m)
        nat = ck.native()
        r = nat.find(code, [tok_tuple(t, m) for t in toks], 0.0)
        texts = [o['text'] for o in r.get('ok', {}).get('batch', [])]
        rep = {'lang': code, 'digits': ds, 'tokens': [t.text for t in toks], 'expected': expected(ds), 'native': r.get('ok', r)}
        return {'key': {'lang': code, 'kind': 'dictation'}, 'reproduced': texts != expected(ds), 'replay': rep,
                'what': '%s: dictating %r as %r gives %r, expected %r' % (code, ds, ''.join(t.text for t in toks), texts, expected(ds))}
    ck.prove_none('%s:dictation' % code, assm, bad, on_cex, lambda m, c: None)
    ck.cover('%s:dictation:ok' % code, assm + [z3.Or(*oks), z3.UGE(ln, 3)] if oks else [False],
             lambda m: {'lang': code, 'tokens': [t.text for t in concrete_tokens(tslots, m)]})
    ck.bounds['dictated_digits_max'] = lmax


def run(ck: Check):
    langs = list(LANGS)
    only = os.environ.get('VERIF_LANGS')
    if only:
        langs = [c for c in langs if c in only.split(',')]
    jobs = []
    for c in langs:
        if c == 'de':
            jobs += [(c, 'pairs', t) for t in range(10)]      # compound words: 100 alternatives per slot, split by tens of a
        else:
            jobs.append((c, 'pairs'))
    jobs += [(c, 'dictation') for c in langs]
    run_parallel(ck, worker, jobs)
    ck.bounds['pairs'] = 'a, b in [0,99], joiner in {space, conjunction}'
    ck.outside += ['numbers >= 100 in the pair', 'dictated sequences longer than the bound', 'joiners other than a space or the conjunction']
    ck.assumptions.append('the fused alternative is judged on the number words only (quantifier: words(c) = words(a) + words(b)); the '
                          'table of such triples is computed from the reference speller alone')
    return ('(a, b) in [0,99]^2, the joiner and the orthographic variants are solver variables: the scanner (threshold 0) is '
            'executed from MIR on spell(a) joiner spell(b) and z3 decides that the outcome is either the two numbers in order '
            'or the single number whose standard spelling consists of exactly those words (table from the reference speller), '
            'with the zero rules of C16.  Dictation: up to 5/8 digit words with symbolic digits; the occurrences are exactly '
            'the stated grouping of the digits.')

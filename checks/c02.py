"""C02 Rewriting is local: only number spans change, all other text is kept verbatim.

(a) The tokenizer on a text of n *symbolic characters* (alphanumeric classification and UTF-8 width uninterpreted):
    tokens are consecutive, non-empty, cover the text, lie on character boundaries, never panic, and are maximal runs
    (a word token = alphanumeric start, then alphanumerics, - or ' ; a separator token = non-alphanumerics up to the next
    alphanumeric) -- the fact the text-level checks (C10, C17, C18) rely on.
(b) Token-wise splice: replace_numbers_in_stream over solver-chosen streams with a recording replacement constructor:
    every input token is either kept as is or handed exactly once, in order, to the constructor of the occurrence that
    covers it, and the constructed tokens are exactly the occurrences that find_numbers reports.
(c) Text level: a text without number words is returned identical, part by part."""
import z3
from .common import Check, run_parallel, Inconclusive, new_executor, Violation
from .stream import *
from .textlevel import *
from mirsym import strings
from mirsym.intrinsics import IterBase, some, NONE, intrinsic, SliceIter
from oracle.langs import LANGS


# ------------------------------------------------------------------------------------------------ (a) symbolic characters

class SymText:
    """a &str of n symbolic chars; byte offsets are sums of symbolic UTF-8 widths"""
    type_name = 'str'
    symbolic_input = True

    def __init__(self, n):
        self.n = n
        self.c = [z3.BitVec('ch%d' % i, 32) for i in range(n)]
        self.alnum = z3.Function('is_alphanumeric', z3.BitVecSort(32), z3.BoolSort())
        self.width = z3.Function('len_utf8', z3.BitVecSort(32), z3.BitVecSort(64))
        self.off = [z3.BitVecVal(0, 64)]
        for i in range(n):
            self.off.append(self.off[i] + self.width(self.c[i]))
        self.assm = []
        for ch in self.c:
            self.assm += [z3.ULE(ch, 0x10FFFF), z3.Not(z3.And(z3.UGE(ch, 0xD800), z3.ULE(ch, 0xDFFF))),
                          z3.UGE(self.width(ch), 1), z3.ULE(self.width(ch), 4),
                          (self.width(ch) == 1) == z3.ULT(ch, 0x80),
                          # exact on the characters the tokenizer names; ASCII letters and digits are alphanumeric,
                          # the other ASCII characters are not; everything else is free (any Unicode table)
                          z3.Implies(z3.Or(z3.And(z3.UGE(ch, 48), z3.ULE(ch, 57)), z3.And(z3.UGE(ch, 65), z3.ULE(ch, 90)),
                                           z3.And(z3.UGE(ch, 97), z3.ULE(ch, 122))), self.alnum(ch)),
                          z3.Implies(z3.And(z3.ULT(ch, 0x80), z3.Not(z3.Or(z3.And(z3.UGE(ch, 48), z3.ULE(ch, 57)),
                                                                         z3.And(z3.UGE(ch, 65), z3.ULE(ch, 90)),
                                                                         z3.And(z3.UGE(ch, 97), z3.ULE(ch, 122))))),
                                     z3.Not(self.alnum(ch)))]

    def shape(self, ex):
        return ('SymText', self.n)

    def same_as(self, o):
        return self is o


class SubText:
    type_name = 'str'

    def __init__(self, text, i, j, lowered=False):
        self.text, self.i, self.j, self.lowered = text, i, j, lowered

    def same_as(self, o):
        return isinstance(o, SubText) and (self.i, self.j, self.lowered) == (o.i, o.j, o.lowered)

    def shape(self, ex):
        return ('SubText', self.i, self.j)


class SymCharIndices(IterBase):
    def __init__(self, text, pos=0):
        self.text, self.pos = text, pos

    def next(self, ex):
        if self.pos >= self.text.n:
            return NONE, self
        return some((self.text.off[self.pos], self.text.c[self.pos])), SymCharIndices(self.text, self.pos + 1)

    def same_as(self, o):
        return isinstance(o, SymCharIndices) and o.pos == self.pos

    def shape(self, ex):
        return ('SymCharIndices', self.pos)


def tokenizer_part(ck: Check, n):
    text = SymText(n)
    ex = new_executor(text.assm)
    orig = dict(ex.intrinsics)

    def char_indices(ex_, args):
        t = ex_.deref(args[0])
        if isinstance(t, SymText):
            return SymCharIndices(t)
        return orig['str::char_indices'](ex_, args)

    def str_len(ex_, args):
        t = ex_.deref(args[0])
        if isinstance(t, SymText):
            return t.off[t.n]
        return orig['str::len'](ex_, args)

    def is_alnum(ex_, args):
        c = ex_.deref(args[0])
        if is_sym(c):
            return text.alnum(bv(c, 32))
        return orig['char::is_alphanumeric'](ex_, args)

    def index(ex_, args):
        base = ex_.deref(args[0])
        if isinstance(base, SymText):
            rng = args[1]
            st, en = rng.fields[0], (rng.fields[1] if rng.ty == 'Range' else base.off[base.n])
            conds, pairs = [], []
            for i in range(base.n + 1):
                for j in range(i, base.n + 1):
                    conds.append(z3.And(bv(st, 64) == base.off[i], bv(en, 64) == base.off[j]))
                    pairs.append((i, j))
            ex_.panic_if(z3.Not(z3.Or(*conds)), 'str slice out of range or not on a char boundary')
            k = ex_.choose(conds)
            return SubText(base, pairs[k][0], pairs[k][1])
        return orig['Index::index'](ex_, args)

    def to_owned(ex_, args):
        return ex_.deref(args[0])

    def to_lower(ex_, args):
        t = ex_.deref(args[0])
        if isinstance(t, SubText):
            return SubText(t.text, t.i, t.j, True)
        return orig['str::to_lowercase'](ex_, args)
    def _pat_chars(ex_, pv):
        pv = ex_.deref(pv)
        if isinstance(pv, int):
            return [pv]
        if isinstance(pv, Seq):
            return [concrete_int(c) for c in pv.elems[:concrete_int(pv.len)]]
        raise Unsupported('trim pattern %r on a symbolic text' % type(pv))

    def trimmer(at_start, at_end, name):
        def model(ex_, args):
            t = ex_.deref(args[0])
            if isinstance(t, SymText):
                t = SubText(t, 0, t.n)
            if not isinstance(t, SubText):
                if name not in orig:
                    raise Unsupported(name + ' on ' + str(type(t)))
                return orig[name](ex_, args)
            pcs = _pat_chars(ex_, args[1])
            is_p = lambda q: z3.Or(*[t.text.c[q] == pc_ for pc_ in pcs])
            i, j = t.i, t.j
            if at_start:
                cands = list(range(i, j + 1))
                conds = [z3.And(*([is_p(q) for q in range(i, ii)] + ([z3.Not(is_p(ii))] if ii < j else []))) for ii in cands]
                i = cands[ex_.choose(conds)]
            if at_end:
                cands = list(range(i, j + 1))
                conds = [z3.And(*([is_p(q) for q in range(jj, j)] + ([z3.Not(is_p(jj - 1))] if jj > i else []))) for jj in cands]
                j = cands[ex_.choose(conds)]
            return SubText(t.text, i, j, t.lowered)
        return model
    ex.intrinsics.update({'str::trim_end_matches': trimmer(False, True, 'str::trim_end_matches'),
                          'str::trim_start_matches': trimmer(True, False, 'str::trim_start_matches'),
                          'str::trim_matches': trimmer(True, True, 'str::trim_matches')})
    ex.intrinsics.update({'str::char_indices': char_indices, 'str::len': str_len, 'char::is_alphanumeric': is_alnum,
                          'Index::index': index, 'ToOwned::to_owned': to_owned, 'str::to_owned': to_owned,
                          'str::to_lowercase': to_lower})
    H.lang_value(ex, 'English')
    t0 = ex.explore('tokenize', [text])
    if len(t0) != 1:
        raise Inconclusive('tokenize() has %d paths' % len(t0))
    res = ex.explore('harness::collect_tokens', [Ref('root', 'tk')], roots={'tk': t0[0].ret})
    ck.absorb(ex)
    bad = [('tokenizer panics: %s %s at %s' % (p.kind, p.msg, p.where), c) for p, c in zip(ex.panics, conds_of(ex.panics))]
    wordch = lambda ch: z3.Or(text.alnum(ch), ch == ord('-'), ch == ord("'"))
    shapes = []
    for r in res:
        toks = r.ret
        nt = concrete_int(toks.len)
        if nt is None:
            raise Inconclusive('symbolic number of tokens on one path')
        spans = []
        okk = True
        for tk in toks.elems[:nt]:
            tx = tk.fields[0]
            lo = tk.fields[1]
            if not isinstance(tx, SubText) or not isinstance(lo, SubText) or (lo.i, lo.j) != (tx.i, tx.j):
                okk = False
                break
            spans.append((tx.i, tx.j))
        structural = okk and all(a < b for a, b in spans) and (not spans or spans[0][0] == 0) and \
            all(spans[q][1] == spans[q + 1][0] for q in range(len(spans) - 1)) and ((not spans and n == 0) or (spans and spans[-1][1] == n))
        conds = [z3.BoolVal(bool(structural))]
        if structural:
            for (a, b) in spans:
                first = text.c[a]
                isw = text.alnum(first)
                word_ok = z3.And(*([wordch(text.c[q]) for q in range(a, b)] + ([z3.Not(wordch(text.c[b]))] if b < n else [])))
                sep_ok = z3.And(*([z3.Not(text.alnum(text.c[q])) for q in range(a, b)] + ([text.alnum(text.c[b])] if b < n else [])))
                conds.append(z3.If(isw, word_ok, sep_ok))
        bad.append(('tokens %r do not partition the text into maximal word / separator runs' % (spans,),
                    z3.And(pc(r), z3.Not(z3.And(*conds)))))
        shapes.append(spans)

    def on_cex(m, fired=None):
        cps = [m.eval(ch, model_completion=True).as_long() for ch in text.c]
        al = [z3.is_true(m.eval(text.alnum(ch), model_completion=True)) for ch in text.c]
        nat = ck.native()
        # realise the abstract characters: pick real characters of the same class
        s = ''
        for cp, a in zip(cps, al):
            ch = chr(cp)
            real = nat.call('charclass', '%x' % cp)
            if real and real[0] is not None and real[0][1] == a:
                s += ch
            else:
                s += ('é' if a else '¿') if cp >= 0x80 else ch
        r = nat.call('tokenize', s.encode('utf-8').hex())
        toks = r.get('ok')
        rep = {'text': s, 'code_points': cps, 'native_tokens': toks if toks is not None else r}
        good = toks is not None and ''.join(toks) == s and all(t for t in toks)
        if good:
            import re
            # maximal runs
            i = 0
            for t in toks:
                cls = [nat.call('charclass', '%x' % ord(c))[0][1] for c in t]
                if cls[0]:
                    good = good and all(c or ch in "-'" for c, ch in zip(cls, t))
                else:
                    good = good and not any(cls)
        return {'key': {'kind': 'tokenizer'}, 'reproduced': not good, 'replay': rep,
                'what': 'tokenize(%r) gives %r' % (s, toks if toks is not None else r.get('panic'))}
    ck.prove_none('tokenizer:n=%d' % n, text.assm, bad, on_cex, lambda m, c: None)
    ck.cover('tokenizer:n=%d:paths' % n, text.assm, lambda m: {'token_partitions_seen': shapes[:6]})
    return len(res)


SPLICE_DRIVER = """
fn harness::splice(_1: Vec<T>, _2: &L, _3: f64) -> (VecDeque<Occurence>, Vec<T>) {
    let mut _0: (VecDeque<Occurence>, Vec<T>);
    let mut _4: &Vec<T>;
    let mut _5: &[T];
    let mut _6: std::slice::Iter<'_, T>;
    let mut _7: NumTracker;
    let mut _8: VecDeque<Occurence>;
    let mut _9: &mut Vec<T>;
    let mut _10: ();

    bb0: {
        _4 = &_1;
        _5 = <Vec<T> as Deref>::deref(move _4) -> [return: bb1, unwind continue];
    }

    bb1: {
        _6 = core::slice::<impl [T]>::iter(copy _5) -> [return: bb2, unwind continue];
    }

    bb2: {
        _7 = track_numbers::<L, &T, std::slice::Iter<'_, T>>(move _6, copy _2, copy _3) -> [return: bb3, unwind continue];
    }

    bb3: {
        _8 = copy (_7.0: VecDeque<Occurence>);
        _9 = &mut _1;
        _10 = NumTracker::replace::<T>(move _7, move _9) -> [return: bb4, unwind continue];
    }

    bb4: {
        _0 = (move _8, move _1);
        return;
    }
}
"""


COLLECT_DRIVER = """
fn harness::collect_tokens(_1: &mut Tokenize<'_>) -> Vec<BasicToken> {
    let mut _0: Vec<BasicToken>;
    let mut _2: Option<BasicToken>;
    let mut _3: isize;
    let mut _4: BasicToken;
    let mut _5: &mut Vec<BasicToken>;
    let mut _6: ();

    bb0: {
        _0 = Vec::<BasicToken>::new() -> [return: bb1, unwind continue];
    }

    bb1: {
        _2 = <Tokenize<'_> as Iterator>::next(copy _1) -> [return: bb2, unwind continue];
    }

    bb2: {
        _3 = discriminant(_2);
        switchInt(move _3) -> [0: bb4, otherwise: bb3];
    }

    bb3: {
        _4 = move ((_2 as Some).0: BasicToken);
        _5 = &mut _0;
        _6 = Vec::<BasicToken>::push(move _5, move _4) -> [return: bb1, unwind continue];
    }

    bb4: {
        return;
    }
}
"""


# ------------------------------------------------------------------------------------------------ (b) token-wise splice

def splice_part(ck: Check, job):
    code, thr = job
    L = LANGS[code]
    quick = ck.tier == 'quick'
    k = 3
    reps, classes = stream_alphabet(ck, code, True)
    st = Stream(code, reps, k, prefix='r')
    # the stream as a Vec of tokens (each a choice among the alternatives of its slot), with identities
    def vec_of_tokens():
        elems = []
        for idx, alts in enumerate(st.slots):
            elems.append(Choice(tuple((c, H.VTok(t.text, t.lower, False, False, idx)) for c, t in alts)))
        return Seq(tuple(elems), len(elems), '')
    ex = make_executor(ck, st.assm)
    ex.shape_ignore = {'Occurence'}
    ex.lift_choices = True
    made = []

    def replace_model(ex_, args):
        it, text = args
        ids = []
        while True:
            item, it = iter_next(ex_, it)
            p = opt_is_some(ex_, item)
            if p is None:
                break
            v = p[0]
            if isinstance(v, Choice):
                v = v.alts[0][1]
            ids.append(v.ident)
        return H.VTok(text, text, False, False, ('made', tuple(ids)))
    from mirsym.intrinsics import iter_next, opt_is_some
    ex.static_dispatch['Replace>::replace'] = replace_model
    lang = H.lang_value(ex, L.type_name)
    if 'harness::splice' not in ex.mir.functions:
        ex.mir.add_synthetic(SPLICE_DRIVER)
    res = ex.explore('harness::splice', [vec_of_tokens(), lang, thr])
    ck.absorb(ex)
    from .c14 import values_equal
    bad = [('panic: %s %s at %s' % (p.kind, p.msg, p.where), c) for p, c in zip(ex.panics, conds_of(ex.panics))]
    some_replaced = []
    for r in res:
        matches, out = r.ret
        n_out = concrete_int(out.len)
        n_m = concrete_int(matches.len)
        if n_out is None or n_m is None:
            raise Inconclusive('symbolic lengths on one path')
        flat = []
        mades = []
        for e in out.elems[:n_out]:
            ident = e.alts[0][1].ident if isinstance(e, Choice) else e.ident
            if isinstance(ident, tuple) and ident and ident[0] == 'made':
                flat.extend(ident[1])
                mades.append((ident[1], e))
            else:
                flat.append(ident)
        structural = flat == list(range(st.ntok)) and all(ids for ids, _ in mades) and len(mades) == n_m
        conds = [z3.BoolVal(bool(structural))]
        if structural:
            for q, (ids, e) in enumerate(mades):
                o = matches.elems[q].fields
                conds.append(z3.And(B64(o[0]) == ids[0], B64(o[1]) == ids[-1] + 1, values_equal(e.text, o[2])))
        bad.append(('the output stream is not the input with exactly the reported occurrences replaced (ids %r, %d occurrences)'
                    % (flat, n_m), z3.And(pc(r), z3.Not(z3.And(*conds)))))
        if n_m:
            some_replaced.append(pc(r))
    nb_cover = z3.Or(*some_replaced) if some_replaced else z3.BoolVal(False)

    def on_cex(m, fired=None):
        toks = st.concrete(m)
        nat = ck.native()
        r = nat.find(code, toks, thr)
        rep = {'lang': code, 'threshold': thr, 'tokens': [t[0] for t in toks], 'native': r.get('ok', r)}
        if 'ok' not in r:
            return {'key': {'lang': code, 'kind': 'panic'}, 'reproduced': True, 'replay': rep, 'what': 'panic: %s' % r.get('panic')}
        occs = [native_occ(o) for o in r['ok']['batch']]
        stream = r['ok']['stream']
        exp = []
        pos = 0
        for o in occs:
            for i in range(pos, o['start']):
                exp.append({'id': i, 'made': False})
            exp.append({'made': True, 'replaced': list(range(o['start'], o['end'])), 'text': o['text']})
            pos = o['end']
        for i in range(pos, len(toks)):
            exp.append({'id': i, 'made': False})
        got = [({'id': t['id'], 'made': False} if not t['made'] else {'made': True, 'replaced': t['replaced'], 'text': t['text']}) for t in stream]
        kept_same = all((not t['made']) and t['text'] == toks[t['id']][0] or t['made'] for t in stream)
        return {'key': {'lang': code, 'kind': 'splice'}, 'reproduced': got != exp or not kept_same, 'replay': rep,
                'what': '%s thr=%s: stream %r is rewritten as %r, expected %r' % (code, thr, [t[0] for t in toks], got, exp)}
    ck.prove_none('%s:splice:thr=%s' % (code, thr), st.assm, bad, on_cex, lambda m, c: None)
    ck.cover('%s:splice:thr=%s:replaced' % (code, thr), st.assm + [nb_cover], lambda m: {'lang': code, 'tokens': [t[0] for t in st.concrete(m)]})


# ------------------------------------------------------------------------------------------------ (c) no number -> identical

def identity_part(ck: Check, code):
    L = LANGS[code]
    reps, classes = stream_alphabet(ck, code, True)
    exq = new_executor()
    lang = H.lang_value(exq, L.type_name)
    plain = []
    for r in reps + ['Cows', 'ÉTÉ', 'naïve', "d'accord"]:
        if not H._wordlike(r) or (code == 'en' and r == 'o'):
            continue        # the English 'o' rule is C18's subject (and forks the annotator on every neighbour)
        rr = exq.explore('text2digits', [r, lang])
        if len(rr) == 1 and concrete_int(rr[0].ret.disc) == 1:
            plain.append(r)
    seps = [' ', ', ', '. ', ' — ', '\t', '  ', '! ', '…', ' (', ') ']
    k = 3
    w = [z3.BitVec('i_w%d' % i, 16) for i in range(k)]
    s = [z3.BitVec('i_s%d' % i, 8) for i in range(k + 1)]
    assm = [z3.ULT(x, len(plain)) for x in w] + [z3.ULT(x, len(seps)) for x in s]
    ws = [[(w[i] == j, r) for j, r in enumerate(plain)] for i in range(k)]
    ss = [[(s[i] == j, r) for j, r in enumerate(seps)] for i in range(k + 1)]
    txt = parts_text(ws, ss[1:k], lead=ss[0], trail=ss[k])
    bad = []
    for thr in (0.0, 10.0):
        ex = text_executor(ck, assm)
        lang = H.lang_value(ex, L.type_name)
        res = ex.explore('replace_numbers_in_text', [txt, lang, thr])
        ck.absorb(ex)
        bad += [('panic: %s %s at %s' % (p.kind, p.msg, p.where), c) for p, c in zip(ex.panics, conds_of(ex.panics))]
        for r in res:
            out = r.ret
            same = isinstance(out, strings.PartsStr) and len(out.parts) == len(txt.slots)
            conds = [z3.BoolVal(bool(same))]
            if same:
                for piece, alts in zip(out.parts, txt.slots):
                    # the piece must be the chosen alternative of the part
                    eqs = []
                    for c, t in alts:
                        if isinstance(piece, Choice):
                            eqs.append(z3.And(ZB(c), z3.Or(*[z3.And(ZB(pc_), z3.BoolVal(pv == t)) for pc_, pv in piece.alts])))
                        else:
                            eqs.append(z3.And(ZB(c), z3.BoolVal(piece == t)))
                    conds.append(z3.Or(*eqs))
            bad.append(('a text without number words is not returned identical (threshold %s)' % thr, z3.And(pc(r), z3.Not(z3.And(*conds)))))

    def on_cex(m, fired=None):
        t, _ = concrete_text(txt, m)
        nat = ck.native()
        r0, r1 = nat.replace(code, t, 0.0), nat.replace(code, t, 10.0)
        rep = {'lang': code, 'text': t, 'rewrite_0': r0.get('ok', r0), 'rewrite_10': r1.get('ok', r1)}
        return {'key': {'lang': code, 'kind': 'identity'}, 'reproduced': r0.get('ok') != t or r1.get('ok') != t, 'replay': rep,
                'what': '%s: %r contains no number word but is rewritten as %r / %r' % (code, t, r0.get('ok'), r1.get('ok'))}
    ck.prove_none('%s:no-number-identical' % code, assm, bad, on_cex, lambda m, c: None)
    ck.cover('%s:no-number-identical:reached' % code, assm, lambda m: {'lang': code, 'text': concrete_text(txt, m)[0]})


def worker(ck: Check, job):
    kind = job[0]
    if kind == 'tok':
        tokenizer_part(ck, job[1])
    elif kind == 'splice':
        splice_part(ck, job[1:])
    else:
        identity_part(ck, job[1])


def run(ck: Check):
    import os
    from .common import load_mir
    mir, res, th, mh = load_mir()
    if 'harness::collect_tokens' not in mir.functions:
        mir.add_synthetic(COLLECT_DRIVER)
    langs = list(LANGS)
    only = os.environ.get('VERIF_LANGS')
    if only:
        langs = [c for c in langs if c in only.split(',')]
    nmax = 4 if ck.tier == 'quick' else 6
    jobs = [('tok', n) for n in range(0, nmax + 1)]
    jobs += [('splice', c, 0.0) for c in langs] + ([('splice', c, 10.0) for c in langs] if ck.tier != 'quick' else [])
    jobs += [('ident', c) for c in langs]
    run_parallel(ck, worker, jobs)
    ck.bounds = {'tokenizer_text_chars': '0..%d symbolic characters' % nmax, 'splice_stream_words': 3, 'identity_text_words': 3}
    ck.outside += ['texts longer than %d characters for the tokenizer obligation (its state is one peeked character)' % nmax,
                   'streams / texts of more than 3 words', 'user-defined tokens whose text and lowercase disagree']
    ck.assumptions.append('is_alphanumeric is an arbitrary predicate fixed only on ASCII; len_utf8 is an arbitrary function in 1..4 '
                          'that is 1 exactly on ASCII: the tokenizer obligation therefore holds for any Unicode table')
    return ('(a) Tokenize::new/next/match_word/match_sep executed from MIR on n symbolic characters with uninterpreted '
            'classification and width: z3 decides that the tokens partition the text into maximal word/separator runs on '
            'character boundaries without panic.  (b) replace_numbers_in_stream executed from MIR with a recording replacement '
            'constructor: every token is kept or handed once, in order, to the constructor of the occurrence covering it, and '
            'the constructed tokens are the occurrences find_numbers reports.  (c) replace_numbers_in_text on texts without '
            'number words returns every part unchanged.')

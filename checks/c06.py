"""C06 Every reported occurrence is well-formed and self-consistent (bounded model checking over token streams)."""
import z3
from .common import Check, run_parallel, Inconclusive
from .stream import *
from oracle.langs import LANGS, ORDINAL_MARKERS, FRACTION_PREFIX
from mirsym.strings import F64Exact, F64Recip, F64Dec, to_symstr


def byte_at(seq, i):
    e = seq.elems[i]
    return bv(e, 8) if is_sym(e) else z3.BitVecVal(e, 8)


def is_digit(b):
    return z3.And(z3.UGE(b, 48), z3.ULE(b, 57))


def match_at(seq, off, lit):
    bs = lit.encode('utf-8')
    if off + len(bs) > seq.cap:
        return z3.BoolVal(False)
    return z3.And(*[byte_at(seq, off + j) == bs[j] for j in range(len(bs))])


def numeral_shape(text, code):
    """-> (wellformed, int_end term, has_marker, is_fraction, frac_digits term) for a str/SymStr value"""
    seq = to_symstr(text).seq
    n = B64(seq.len)
    cap = seq.cap
    mark = LANGS[code].decimal_mark.encode('utf-8')[0]
    markers = ORDINAL_MARKERS[code]
    fp = FRACTION_PREFIX.get(code)
    alts = []          # (cond, has_marker, is_fraction, n_int_digits, n_frac_digits)
    for start, isfrac in ((0, False),) + (((len(fp), True),) if fp else ()):
        pre = match_at(seq, 0, fp) if isfrac else z3.BoolVal(True)
        for ie in range(start + 1, cap + 1):
            digits_ok = z3.And(pre, *[is_digit(byte_at(seq, i)) for i in range(start, ie)])
            # plain integer (or fraction 1/n)
            alts.append((z3.And(digits_ok, n == ie), False, isfrac, ie - start, 0))
            if isfrac:
                continue
            for mk in markers:
                ml = len(mk.encode('utf-8'))
                alts.append((z3.And(digits_ok, n == ie + ml, match_at(seq, ie, mk)), True, False, ie, 0))
            for fe in range(ie + 2, cap + 1):
                if ie >= cap:
                    break
                frac_ok = z3.And(byte_at(seq, ie) == mark, *[is_digit(byte_at(seq, i)) for i in range(ie + 1, fe)])
                alts.append((z3.And(digits_ok, frac_ok, n == fe), False, False, ie, fe - ie - 1))
    return seq, alts


def value_reads(val, seq, n_int, n_frac, isfrac, start):
    """z3 Bool: the reported value is the numeric reading of the text's digits"""
    if isinstance(val, Choice):
        return z3.Or(*[z3.And(ZB(c), value_reads(v, seq, n_int, n_frac, isfrac, start)) for c, v in val.alts])
    if isfrac:
        if not isinstance(val, F64Recip):
            return z3.BoolVal(False)
        inner = val.inner
        return digits_equal(inner, seq, start, n_int, None, 0)
    if isinstance(val, F64Dec):
        if not n_frac:
            return z3.BoolVal(False)
        return z3.And(seq_digits_equal(val.int_src, seq, 0, n_int), seq_digits_equal(val.frac_src, seq, n_int + 1, n_frac))
    if not isinstance(val, F64Exact):
        return z3.BoolVal(False)
    return digits_equal(val, seq, 0, n_int, n_int + 1 if n_frac else None, n_frac)


def seq_digits_equal(src, seq, start, n):
    conds = [B64(src.len) == n]
    for j in range(n):
        if j >= src.cap:
            return z3.BoolVal(False)
        conds.append(byte_at(src, j) == byte_at(seq, start + j))
    return z3.And(*conds)


def digits_equal(val, seq, istart, n_int, fstart, n_frac):
    if val.src is None:
        return z3.BoolVal(False)
    if val.scale != n_frac:
        return z3.BoolVal(False)
    src = val.src
    conds = [B64(src.len) == n_int + n_frac]
    for j in range(n_int):
        if j >= src.cap:
            return z3.BoolVal(False)
        conds.append(byte_at(src, j) == byte_at(seq, istart + j))
    for j in range(n_frac):
        if n_int + j >= src.cap:
            return z3.BoolVal(False)
        conds.append(byte_at(src, n_int + j) == byte_at(seq, fstart + j))
    return z3.And(*conds)


def occurrence_ok(o, code, ntok):
    st, en, text, val, isord = o
    if isinstance(text, Choice):
        raise Inconclusive('occurrence text is a Choice')
    seq, alts = numeral_shape(text, code)
    fp = FRACTION_PREFIX.get(code)
    shape = []
    for cond, has_marker, isfrac, n_int, n_frac in alts:
        start = len(fp) if isfrac else 0
        shape.append(z3.And(cond, ZB(isord) == z3.BoolVal(has_marker),
                            value_reads(val, seq, n_int, n_frac, isfrac, start)))
    s, e = B64(st), B64(en)
    span = z3.And(z3.ULT(s, e), z3.ULE(e, ntok), z3.Extract(0, 0, s) == 0, z3.Extract(0, 0, e) == 1)
    return z3.And(span, z3.Or(*shape))


def describe_occ(o):
    return {'start': o['start'], 'end': o['end'], 'text': o['text'], 'value': o['value'], 'is_ordinal': o['is_ordinal']}


def native_wellformed(occs, code, ntok, toks):
    import re
    markers = sorted(ORDINAL_MARKERS[code], key=len, reverse=True)
    mark = re.escape(LANGS[code].decimal_mark)
    prev_end = 0
    problems = []
    for o in occs:
        if not (o['start'] < o['end'] <= ntok) or o['start'] < prev_end:
            problems.append('span %d..%d' % (o['start'], o['end']))
        else:
            for idx in (o['start'], o['end'] - 1):
                t = toks[idx][0]
                if not any(ch.isalnum() for ch in t):
                    problems.append('span edge on non-word token %r' % t)
        prev_end = o['end']
        t = o['text']
        fp = FRACTION_PREFIX.get(code)
        m = None
        if fp and t.startswith(fp) and t[len(fp):].isdigit() and t[len(fp):].isascii():
            if o['is_ordinal']:
                problems.append('fraction flagged ordinal')
            n = int(t[len(fp):])
            if n == 0 or abs(o['value'] - 1.0 / n) > 0:
                problems.append('value %r of %r' % (o['value'], t))
            continue
        mm = re.fullmatch(r'([0-9]+)(?:%s([0-9]+))?(.*)' % mark, t, re.S)
        if not mm or (mm.group(3) and mm.group(3) not in markers) or (mm.group(2) and mm.group(3)):
            problems.append('text %r is not a numeral' % t)
            continue
        has_marker = bool(mm.group(3))
        if has_marker != o['is_ordinal']:
            problems.append('is_ordinal=%s but text %r' % (o['is_ordinal'], t))
        read = float(mm.group(1) + ('.' + mm.group(2) if mm.group(2) else ''))
        if read != o['value']:
            problems.append('value %r but text %r' % (o['value'], t))
    return problems


def worker(ck: Check, job):
    code, thr = job
    L = LANGS[code]
    quick = ck.tier == 'quick'
    k = 3 if quick else 4
    reps, classes = stream_alphabet(ck, code, quick)
    ck.per_lang[code] = {'alphabet_words': sum(len(m) for _, m in classes), 'behaviour_classes': len(classes)}
    st = Stream(code, reps, k)
    ex = make_executor(ck, st.assm)
    ex.shape_ignore = {'Occurence'}
    res = run_scanner(ck, ex, L, st.slots, thr)
    ck.absorb(ex)
    name = '%s:thr=%s' % (code, thr)
    bad = []
    goods = []
    for r in res:
        n, occs = occurrences(r)
        conds = []
        for j, o in enumerate(occs):
            okj = occurrence_ok(o, code, st.ntok)
            if j + 1 < len(occs):
                okj = z3.And(okj, z3.Implies(z3.UGT(n, j + 1), z3.ULE(B64(o[1]), B64(occs[j + 1][0]))))
            conds.append(z3.Implies(z3.UGT(n, j), okj))
        good = z3.And(*conds) if conds else z3.BoolVal(True)
        bad.append(('ill-formed occurrence', z3.And(pc(r), z3.Not(good))))
        goods.append(z3.And(pc(r), z3.UGE(n, 1)))
    bad += [('panic: %s %s at %s' % (p.kind, p.msg, p.where), c) for p, c in zip(ex.panics, conds_of(ex.panics))]
    covered = [pc(r) for r in res] + conds_of(ex.panics) + conds_of(ex.bound_conds)
    r0, _ = ck.solve(st.assm + [z3.Not(z3.Or(*covered))])
    if r0 != 'unsat':
        ck.inconclusive.append('%s: explored paths do not cover all streams (%s)' % (name, r0))

    def on_cex(m, fired=None):
        toks = st.concrete(m)
        nat = ck.native()
        r = nat.find(code, toks, thr)
        rep = {'lang': code, 'threshold': thr, 'tokens': [t[0] for t in toks], 'native': r.get('ok', r)}
        if 'ok' not in r:
            return {'key': {'lang': code, 'kind': 'panic'}, 'reproduced': True, 'replay': rep,
                    'what': '%s: find_numbers panics on %r: %s' % (code, [t[0] for t in toks], r.get('panic'))}
        occs = [native_occ(o) for o in r['ok']['batch']]
        problems = native_wellformed(occs, code, len(toks), toks)
        lazy = [native_occ(o) for o in r['ok']['lazy']]
        problems += ['lazy: ' + p for p in native_wellformed(lazy, code, len(toks), toks)]
        kinds = sorted({p.split(' ')[0] for p in problems})
        return {'key': {'lang': code, 'kind': kinds[0] if kinds else ''}, 'reproduced': bool(problems), 'replay': rep,
                'what': '%s thr=%s: tokens %r give %r: %s' % (code, thr, [t[0] for t in toks],
                                                              [(o['start'], o['end'], o['text'], o['is_ordinal']) for o in occs],
                                                              '; '.join(problems[:3]))}
    ck.prove_none(name, st.assm, bad, on_cex, lambda m, c: None)
    ck.cover(name + ':some-occurrence', st.assm + [z3.Or(*goods)] if goods else [False],
             lambda m: {'lang': code, 'tokens': [t[0] for t in st.concrete(m)]})
    ck.bounds['stream_words'] = k
    ck.bounds['thresholds'] = 'concrete: 0.0 and 10.0'


def run(ck: Check):
    import os
    langs = list(LANGS)
    only = os.environ.get('VERIF_LANGS')
    if only:
        langs = [c for c in langs if c in only.split(',')]
    jobs = [(c, t) for c in langs for t in (0.0, 10.0)]
    run_parallel(ck, worker, jobs)
    ck.outside += ['streams of more than %d word tokens (with separators between them)' % (3 if ck.tier == 'quick' else 4),
                   'words outside the regenerated alphabet whose behaviour differs from every behaviour class',
                   'thresholds other than 0.0 and 10.0', 'token streams where a separator token sits in a word position']
    ck.assumptions.append('tokens at even positions are word-like, at odd positions separator-like (what tokenize produces)')
    ck.assumptions.append('one representative per behaviour class of the alphabet (classes computed by symbolic execution '
                          'of apply/apply_decimal/is_decimal_sep/is_linking/get_morph_marker from a generic builder state)')
    return ('Bounded model checking of find_numbers from MIR over all streams of k words (each word a solver-chosen behaviour '
            'class of the language alphabet, separators solver-chosen): every reported occurrence has an in-range span on word '
            'tokens, spans are increasing and disjoint, the text is a numeral of the language (digits, optional decimal part, '
            'optional ordinal marker, or 1/n), the value is the reading of exactly those digits and is_ordinal <=> marker.')

//! Kani/CBMC cross-check of the DigitString obligations O1-O3 and O5 of C12 on the *compiled* crate
//! (independent of the MIR executor and of its Vec/slice models).  One harness per (operation, concrete
//! buffer length, concrete position / argument length); digit contents, the frozen bit, one leading zero
//! and the argument digits are kani::any().
#![allow(dead_code)]
#[cfg(kani)]
mod proofs {
    use text2num::digit_string::DigitString;
    use text2num::error::Error;

    const CAP: usize = 12;

    fn digit() -> u8 {
        let d: u8 = kani::any();
        kani::assume(d >= b'0' && d <= b'9');
        d
    }

    /// arbitrary valid builder with a buffer of exactly L digits (what push() can build), optionally one
    /// leading zero (only when the buffer is empty, as put(b"0") allows) and optionally frozen
    fn state<const L: usize>() -> DigitString {
        let mut b = DigitString::new();
        if L == 0 && kani::any() {
            b.put(b"0").unwrap();
        }
        let mut cells = [b'0'; L];
        let mut i = 0;
        while i < L {
            cells[i] = digit();
            i += 1;
        }
        if L > 0 {
            b.push(&cells).unwrap();
        }
        if kani::any() {
            b.freeze();
        }
        b
    }

    fn snap(b: &DigitString) -> ([u8; CAP], usize, usize) {
        let s: &[u8] = b;
        let mut a = [0u8; CAP];
        let mut i = 0;
        while i < s.len() && i < CAP {
            a[i] = s[i];
            i += 1;
        }
        (a, s.len(), b.len())
    }

    fn same(a: &([u8; CAP], usize, usize), b: &([u8; CAP], usize, usize)) -> bool {
        if a.1 != b.1 || a.2 != b.2 {
            return false;
        }
        let mut i = 0;
        while i < a.1 && i < CAP {
            if a.0[i] != b.0[i] {
                return false;
            }
            i += 1;
        }
        true
    }

    fn all_digits(s: &([u8; CAP], usize, usize)) -> bool {
        let mut i = 0;
        while i < s.1 && i < CAP {
            if !(s.0[i] >= b'0' && s.0[i] <= b'9') {
                return false;
            }
            i += 1;
        }
        true
    }

    /// common obligations after a mutating operation that returned r
    fn after(pre: &([u8; CAP], usize, usize), was_frozen: bool, r: &Result<(), Error>, b: &DigitString) {
        let post = snap(b);
        assert!(post.1 <= CAP);
        // O2: rendering stays a digit string whose length is len()
        assert!(all_digits(&post));
        assert!(post.2 >= post.1);
        // O3: a refused operation changes nothing
        if r.is_err() {
            assert!(same(pre, &post));
        }
        // O5: a frozen builder refuses every mutating operation
        if was_frozen {
            assert!(matches!(r, Err(Error::Frozen)));
        }
    }

    macro_rules! shift_case {
        ($name:ident, $l:expr, $p:expr) => {
            #[kani::proof]
            #[kani::unwind(14)]
            fn $name() {
                let mut b = state::<$l>();
                let pre = snap(&b);
                let frozen = b.shift(0).is_err();   // shift(0) is the documented no-op: Err only when frozen
                let r = b.shift($p);
                after(&pre, frozen, &r, &b);
            }
        };
    }

    macro_rules! digits_case {
        ($name:ident, $op:ident, $l:expr, $m:expr) => {
            #[kani::proof]
            #[kani::unwind(14)]
            fn $name() {
                let mut b = state::<$l>();
                let pre = snap(&b);
                let frozen = b.shift(0).is_err();
                let mut d = [b'0'; $m];
                let mut i = 0;
                while i < $m {
                    d[i] = digit();
                    i += 1;
                }
                let r = b.$op(&d);
                after(&pre, frozen, &r, &b);
            }
        };
    }

    macro_rules! digit_at_case {
        ($name:ident, $l:expr, $pos:expr) => {
            #[kani::proof]
            #[kani::unwind(14)]
            fn $name() {
                let mut b = state::<$l>();
                let pre = snap(&b);
                let frozen = b.shift(0).is_err();
                let r = b.put_digit_at(digit(), $pos);
                after(&pre, frozen, &r, &b);
            }
        };
    }

    macro_rules! query_case {
        ($name:ident, $l:expr, $pos:expr) => {
            #[kani::proof]
            #[kani::unwind(14)]
            fn $name() {
                let b = state::<$l>();
                let pre = snap(&b);
                // O1: no panic (Kani checks every arithmetic overflow and index); queries do not change the builder
                let _ = b.is_position_free($pos);
                let _ = b.is_free($pos);
                let _ = b.peek($pos);
                let _ = b.is_range_free($pos, $pos + 1);
                assert!(same(&pre, &snap(&b)));
            }
        };
    }

    include!("cases.rs");
}

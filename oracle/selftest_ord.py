import random, sys, z3
sys.path.insert(0, '/verif')
from oracle.base import Digits, concrete_phrase
from oracle.langs import LANGS
from oracle.ordinals import ORDINALS, MAX_DIGITS
from mirsym.native import Native

def main():
    rnd = random.Random(3)
    codes = sys.argv[1].split(',') if len(sys.argv) > 1 else list(ORDINALS)
    nat = Native()
    for code in codes:
        L = LANGS[code]
        digs = Digits(12); f = L.flags(); infl = z3.BitVec('infl', 8)
        slots, mk, side = ORDINALS[code](digs, f, infl)
        side = side + list(L.side_constraints(digs, f))
        nd = MAX_DIGITS[code]
        samples = list(range(1, 130)) + [200, 300, 400, 500, 600, 700, 800, 900, 1000, 1001, 1100, 1999, 2000, 3000, 10000, 21000, 100000, 999999, 181, 188, 171, 116, 160, 480]
        for _ in range(150):
            samples.append(rnd.randrange(1, 10 ** rnd.randint(1, nd)))
        bad = tried = 0
        for n in samples:
            if n >= 10 ** nd: continue
            s = z3.Solver()
            for i, d in enumerate(digs.D): s.add(d == (n // 10 ** i) % 10)
            for k, v in f.items(): s.add(v == (rnd.random() < 0.5))
            s.add(infl == rnd.randint(0, 4))
            for c in side: s.add(c)
            if s.check() != z3.sat:
                s2 = z3.Solver()
                for i, d in enumerate(digs.D): s2.add(d == (n // 10 ** i) % 10)
                for c in side: s2.add(c)
                if s2.check() != z3.sat: continue
                m = s2.model()
            else:
                m = s.model()
            words = concrete_phrase(slots, m)
            marker = [mm for c, mm in mk if c is True or z3.is_true(m.eval(c, model_completion=True))]
            assert len(marker) == 1, marker
            text = ' '.join(words)
            tried += 1
            r = nat.t2d(code, text)
            got = r.get('ok', {}).get('Ok') if 'ok' in r else None
            if got != str(n) + marker[0]:
                bad += 1
                if bad <= 14: print(code, n, repr(text), '->', r.get('ok', r), 'expected', str(n) + marker[0])
        print(code, 'tried', tried, 'mismatches', bad)
main()

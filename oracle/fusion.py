"""Fusion table of C08: R = {(a, b, c)}: some standard spelling of c consists of exactly the number words of a followed by
those of b.  Computed from the reference spellers alone (never from /repo); the result is cached under
/verif/oracle/tables keyed by the hash of the oracle sources and of this file, and committed, because the computation
(one small solver call per number and variant) takes up to half an hour for German."""
import hashlib
import json
import os
import z3
from .base import concrete_phrase, Digits
from .langs import LANGS

HERE = os.path.dirname(os.path.abspath(__file__))


def table_key():
    """hash of what the tables depend on: the speller classes (oracle/langs.py up to the LANGS table, en.py, base.py) and the
    table computation below -- not the word lists for the stream checks that follow the spellers in langs.py"""
    langs_src = open(os.path.join(HERE, 'langs.py'), 'rb').read()
    cut = langs_src.find(b'\nLANGS = {')
    if cut > 0:
        langs_src = langs_src[:cut]
    me = open(os.path.join(HERE, 'fusion.py'), 'rb').read()
    start = me.find(b'\ndef flag_assignments')
    src = langs_src + b''.join(open(os.path.join(HERE, f_), 'rb').read() for f_ in ('en.py', 'base.py')) + me[start:]
    return hashlib.sha256(src).hexdigest()[:16]


def flag_assignments(f):
    """all assignments of the variant flags that can matter below 1000 (flags of higher groups stay False)"""
    import re
    names = [n for n in sorted(f) if not re.search(r'[123]$', n)]
    for mask in range(1 << len(names)):
        fa = {n: False for n in f}
        fa.update({n: bool(mask >> i & 1) for i, n in enumerate(names)})
        yield fa


def spellings(L, n, digs, f, slots, side):
    """all variant spellings of n as tuples of number words (conjunction removed, hyphenated words split)"""
    out = set()
    for fa in flag_assignments(f):
        s = z3.Solver()
        for i, d in enumerate(digs.D):
            s.add(d == (n // 10 ** i) % 10)
        for k, v in fa.items():
            s.add(f[k] == v)
        for c in side:
            s.add(c)
        if s.check() != z3.sat:
            continue
        words = concrete_phrase(slots, s.model())
        flat = []
        for w in words:
            if w == L.conj:
                continue
            flat.extend(w.split('-') if L.code in ('en', 'fr') else [w])
        flat = [w for w in flat if w != L.conj]
        # the silent agreement mark of French 'vingts' is not a different word ('quatre-vingts dix-neuf' are the words of 99)
        if L.code == 'fr':
            flat = ['vingt' if w == 'vingts' else w for w in flat]
        out.add(tuple(flat))
    return out


def fusion_table(code):
    """R = {(a, b, c)}: some standard spelling of c consists of exactly the number words of a followed by those of b"""
    L = LANGS[code]
    key = table_key()
    path = os.path.join(HERE, 'tables', 'fusion-%s-%s.json' % (code, key))
    if os.path.exists(path):
        return [tuple(x) for x in json.load(open(path))]
    digs = Digits(12)
    f = L.flags()
    slots = L.cardinal_slots(digs, f)
    side = list(L.side_constraints(digs, f))
    # only flags that influence numbers below 10000
    small = {}
    for n in range(0, 100):
        small[n] = spellings(L, n, digs, f, slots, side)
    R = set()
    for c in range(1, 1000):
        for sp in spellings(L, c, digs, f, slots, side):
            for cut in range(1, len(sp)):
                pre, suf = sp[:cut], sp[cut:]
                for a in range(1, 100):
                    if pre in small[a]:
                        for b in range(1, 100):
                            if suf in small[b]:
                                R.add((a, b, c))
    # compound languages write tens-units (and German/Dutch teens) as one word made of exactly the two number words
    if code in ('de', 'nl'):
        for t in range(2, 10):
            for u in range(1, 10):
                R.add((u, 10 * t, 10 * t + u))
        for u in range(3, 10):
            R.add((u, 10, 10 + u))
    if code == 'it':
        for t in range(2, 10):
            for u in range(1, 10):
                R.add((10 * t, u, 10 * t + u))
    os.makedirs(os.path.dirname(path), exist_ok=True)
    json.dump(sorted(R), open(path, 'w'))
    return sorted(R)



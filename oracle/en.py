"""English reference speller (standard orthography; hyphen/space and optional British 'and' as variants)."""
import z3
from .base import *

CODE = 'en'
TYPE = 'English'
ONES = [None, 'one', 'two', 'three', 'four', 'five', 'six', 'seven', 'eight', 'nine']
TEENS = ['ten', 'eleven', 'twelve', 'thirteen', 'fourteen', 'fifteen', 'sixteen', 'seventeen', 'eighteen', 'nineteen']
TENS = [None, None, 'twenty', 'thirty', 'forty', 'fifty', 'sixty', 'seventy', 'eighty', 'ninety']
SCALES = [None, 'thousand', 'million', 'billion']
ZERO = 'zero'
ZERO_WORDS = ['zero', 'o', 'nought']
CONJ = 'and'
DECIMAL_SEP = 'point'
DECIMAL_MARK = '.'
ORD_ONES = [None, 'first', 'second', 'third', 'fourth', 'fifth', 'sixth', 'seventh', 'eighth', 'ninth']
ORD_TEENS = ['tenth', 'eleventh', 'twelfth', 'thirteenth', 'fourteenth', 'fifteenth', 'sixteenth', 'seventeenth',
             'eighteenth', 'nineteenth']
ORD_TENS = [None, None, 'twentieth', 'thirtieth', 'fortieth', 'fiftieth', 'sixtieth', 'seventieth', 'eightieth',
            'ninetieth']
ORD_SCALES = [None, 'thousandth', 'millionth', 'billionth']
ORDINARY = ['cows', 'the', 'potatoes']       # ordinary non-number, non-linking words for contexts
NGROUPS = 4


def flags():
    f = {}
    for k in range(NGROUPS):
        f['hy%d' % k] = z3.Bool('en_hy%d' % k)       # hyphenated tens-units in group k
        f['and%d' % k] = z3.Bool('en_and%d' % k)     # 'and' after 'hundred' in group k
    return f


def group_slots(digs, k, f, ordinal_last=False):
    """slots of group k (without the scale word).  ordinal_last: this group's last word carries the ordinal form
    (only used by ordinal_slots for the group that ends the number)."""
    h, t, u = digs.group(k)
    hy, andf = f['hy%d' % k], f['and%d' % k]
    rest = OR(t != 0, u != 0)
    s = []
    s.append(slot(by_digit(h, ONES)))
    s.append(slot([(h != 0, 'hundred')]))
    s.append(slot([(AND(h != 0, rest, andf), CONJ)]))
    alts = []
    alts += by_digit(u, TEENS, t == 1)
    for tv in range(2, 10):
        alts.append((AND(t == tv, u == 0), TENS[tv]))
        alts.append((AND(t == tv, u != 0, NOT(hy)), TENS[tv]))
        for uv in range(1, 10):
            alts.append((AND(t == tv, u == uv, hy), TENS[tv] + '-' + ONES[uv]))
    s.append(slot(alts))
    s.append(slot(by_digit(u, ONES, OR(t == 0, AND(z3.UGE(t, 2), NOT(hy))))))
    return s


def cardinal_slots(digs, f):
    slots = [slot([(digs.is_zero(), ZERO)])]
    for k in range(NGROUPS - 1, -1, -1):
        slots += group_slots(digs, k, f)
        if k > 0:
            slots.append(slot([(digs.group_nonzero(k), SCALES[k])]))
    return slots


def ordinal_slots(digs, f, plural=None):
    """n >= 1.  The last word of the cardinal takes its ordinal form.  plural: z3 Bool flag (fractions 'fifths');
    not used for the marker of singular ordinals."""
    slots = []
    for k in range(NGROUPS - 1, -1, -1):
        h, t, u = digs.group(k)
        hy, andf = f['hy%d' % k], f['and%d' % k]
        rest = OR(t != 0, u != 0)
        last_group = NOT(digs.lower_nonzero(k)) if k > 0 else True     # nothing non-zero below this group
        ends_here_scale = AND(last_group, digs.group_nonzero(k)) if k > 0 else False   # number ends with the scale word
        # within group: which word is last (only relevant if k == 0 and the group is non-zero)
        is_last = (k == 0)
        ord_u = AND(u != 0, t != 1) if is_last else False        # last word = unit
        ord_teen = (t == 1) if is_last else False
        ord_ten = AND(z3.UGE(t, 2), u == 0) if is_last else False
        ord_hundred = AND(h != 0, t == 0, u == 0) if is_last else False
        slots.append(slot(by_digit(h, ONES)))
        slots.append(slot([(AND(h != 0, NOT(ord_hundred)), 'hundred'), (AND(h != 0, ord_hundred), 'hundredth')]))
        slots.append(slot([(AND(h != 0, rest, andf), CONJ)]))
        alts = []
        if is_last:
            alts += by_digit(u, ORD_TEENS, t == 1)
        else:
            alts += by_digit(u, TEENS, t == 1)
        for tv in range(2, 10):
            alts.append((AND(t == tv, u == 0), ORD_TENS[tv] if is_last else TENS[tv]))
            alts.append((AND(t == tv, u != 0, NOT(hy)), TENS[tv]))
            for uv in range(1, 10):
                alts.append((AND(t == tv, u == uv, hy), TENS[tv] + '-' + (ORD_ONES[uv] if is_last else ONES[uv])))
        slots.append(slot(alts))
        slots.append(slot(by_digit(u, ORD_ONES if is_last else ONES, OR(t == 0, AND(z3.UGE(t, 2), NOT(hy))))))
        if k > 0:
            slots.append(slot([(AND(digs.group_nonzero(k), NOT(ends_here_scale)), SCALES[k]),
                               (AND(digs.group_nonzero(k), ends_here_scale), ORD_SCALES[k])]))
    return slots


def ordinal_marker(digs):
    """list of (cond, marker) for the singular ordinal of n"""
    t, u = digs.D[1], digs.D[0]
    return [(AND(u == 1, t != 1), 'st'), (AND(u == 2, t != 1), 'nd'), (AND(u == 3, t != 1), 'rd'),
            (OR(t == 1, u == 0, z3.UGE(u, 4)), 'th')]


def digit_word(d):
    """dictation / decimal digit words: list of (cond, word)"""
    return by_digit(d, ['zero'] + ONES[1:])

"""Reference spellers: common machinery.

A speller maps twelve decimal digit terms (most significant first is NOT used: D[i] is the digit of 10^i) and boolean
variant flags to a list of *slots*.  A slot is a list of (condition, word) alternatives, mutually exclusive and
exhaustive; word None = empty slot.  Conditions are z3 terms over the digit/flag variables, so one definition
serves symbolic queries and (by evaluating the conditions in a model) concrete replay.

These definitions are written from the grammars of the languages, not from the repository's code."""
import z3


def AND(*xs):
    xs = [x for x in xs if x is not True]
    if any(x is False for x in xs):
        return False
    if not xs:
        return True
    return z3.And(*xs) if len(xs) > 1 else xs[0]


def OR(*xs):
    xs = [x for x in xs if x is not False]
    if any(x is True for x in xs):
        return True
    if not xs:
        return False
    return z3.Or(*xs) if len(xs) > 1 else xs[0]


def NOT(x):
    if x is True:
        return False
    if x is False:
        return True
    return z3.Not(x)


def slot(alts, none_if=None):
    """alts: list of (cond, word) with mutually exclusive conds; adds the empty alternative.
    none_if: a simple condition known to be equivalent to 'no alternative applies' (keeps big slots cheap)"""
    alts = [(c, w) for c, w in alts if c is not False]
    rest = NOT(OR(*[c for c, _ in alts])) if none_if is None else none_if
    out = list(alts)
    if rest is not False:
        out.append((rest, None))
    return out


def by_digit(d, words, guard=True):
    """alternatives: d == v -> words[v] for v in words (dict or list indexed by digit; None entries skipped)"""
    items = words.items() if isinstance(words, dict) else enumerate(words)
    return [(AND(guard, d == v), w) for v, w in items if w is not None]


class Digits:
    """n = sum D[i]*10^i, i in [0,ndigits)"""

    def __init__(self, ndigits=12, prefix='d'):
        self.n = ndigits
        self.D = [z3.BitVec('%s%d' % (prefix, i), 8) for i in range(ndigits)]

    def constraints(self, max_digits=None):
        cs = [z3.ULE(d, 9) for d in self.D]
        if max_digits is not None:
            cs += [d == 0 for d in self.D[max_digits:]]
        return cs

    def domain(self, name):
        """constraints selecting a sub-domain of n (all domains are stated in the evidence):
        'low6'   : n < 10^6
        'sparse' : units group free, thousands/millions/billions groups have a single digit (d4=d5=d7=d8=d10=d11=0)
        'scales' : every group of three has a single digit (units, thousands, millions, billions digit free)
        'full9' / 'full12' : n < 10^9 / 10^12"""
        cs = [z3.ULE(d, 9) for d in self.D]
        zero = lambda idx: [self.D[i] == 0 for i in idx if i < self.n]
        if name == 'low6':
            cs += zero(range(6, 12))
        elif name == 'low4':
            cs += zero(range(4, 12))
        elif name == 'low3':
            cs += zero(range(3, 12))
        elif name == 'low2':
            cs += zero(range(2, 12))
        elif name == 'sparse':
            cs += zero([4, 5, 7, 8, 10, 11])
        elif name == 'scales':
            cs += zero([1, 2, 4, 5, 7, 8, 10, 11])
        elif name == 'sparse9':
            cs += zero([4, 5, 7, 8, 9, 10, 11])
        elif name == 'full9':
            cs += zero(range(9, 12))
        elif name == 'full12':
            pass
        else:
            raise ValueError(name)
        return cs

    def group(self, k):
        """(hundreds, tens, units) digit terms of the k-th group of three"""
        return self.D[3 * k + 2], self.D[3 * k + 1], self.D[3 * k]

    def group_nonzero(self, k):
        h, t, u = self.group(k)
        return OR(h != 0, t != 0, u != 0)

    def group_is(self, k, v):
        h, t, u = self.group(k)
        return AND(h == v // 100, t == (v // 10) % 10, u == v % 10)

    def is_zero(self):
        return AND(*[d == 0 for d in self.D])

    def higher_nonzero(self, k):
        """some group above k is non-zero"""
        return OR(*[self.group_nonzero(j) for j in range(k + 1, self.n // 3)])

    def lower_nonzero(self, k):
        return OR(*[self.group_nonzero(j) for j in range(0, k)])

    def value_of(self, m):
        return sum(m.eval(d, model_completion=True).as_long() * 10 ** i for i, d in enumerate(self.D))

    def sig_len(self):
        """number of significant decimal digits (1 for n = 0) as a z3 BV64 term"""
        res = z3.BitVecVal(1, 64)
        for i in range(1, self.n):
            res = z3.If(self.D[i] != 0, z3.BitVecVal(i + 1, 64), res)
        # the highest non-zero digit wins: iterate from low to high so later (higher) overrides
        return res

    def decimal_cell(self, i, L=None):
        """ASCII byte at left index i of decimal(n): digit D[L-1-i]"""
        L = self.sig_len() if L is None else L
        res = z3.BitVecVal(48, 8)
        for k in range(1, self.n + 1):
            if k - 1 - i >= 0:
                res = z3.If(L == k, self.D[k - 1 - i] + 48, res)
        return res


def concrete_phrase(slots, m):
    """evaluate the slots in model m -> list of words"""
    words = []
    for alts in slots:
        chosen = None
        hit = 0
        for c, w in alts:
            v = True if c is True else z3.is_true(m.eval(c, model_completion=True))
            if v:
                hit += 1
                chosen = w
        if hit != 1:
            raise AssertionError('slot alternatives are not exclusive/exhaustive in the model (%d hits)' % hit)
        if chosen is not None:
            words.append(chosen)
    return words


def decimal_matches(ret_str, digs: Digits, suffix=''):
    """z3 Bool: the String value ret_str (Python str or SymStr) equals decimal(n) ++ suffix"""
    from mirsym.strings import to_symstr
    from mirsym.values import bv, is_sym, Choice
    if isinstance(ret_str, Choice):
        alts = []
        seen = z3.BoolVal(False)
        for c, v in ret_str.alts:
            cz = z3.BoolVal(c) if isinstance(c, bool) else c
            alts.append(z3.And(cz, z3.Not(seen), decimal_matches(v, digs, suffix)))
            seen = z3.Or(seen, cz)
        return z3.Or(*alts)
    s = to_symstr(ret_str).seq
    L = digs.sig_len()
    sb = suffix.encode('utf-8')
    total = L + len(sb)
    slen = s.len if is_sym(s.len) else z3.BitVecVal(s.len, 64)
    conds = [slen == total]
    for i in range(s.cap):
        e = bv(s.elems[i], 8) if is_sym(s.elems[i]) else z3.BitVecVal(s.elems[i], 8)
        exp = digs.decimal_cell(i, L)
        for j, b in enumerate(sb):
            # suffix byte j sits at index L + j
            exp = z3.If(L + j == i, z3.BitVecVal(b, 8), exp)
        conds.append(z3.Implies(z3.ULT(z3.BitVecVal(i, 64), total), e == exp))
    # the string must not be longer than its capacity allows us to see
    return z3.And(*conds)

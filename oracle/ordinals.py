"""Reference spellers for ordinals.  Interface per language code:
   ordinal_slots(code, digs, f, infl) -> (slots, marker_alternatives)
where infl is a z3 BitVec selecting the inflection and marker_alternatives is a list of (cond, marker string).
Ranks: n >= 1.  es/pt: n <= 1999 (the caller constrains the digits)."""
import z3
from .base import *
from .langs import LANGS, _compound_slot
from . import en as _en


def nonempty(alts):
    return OR(*[c for c, w in alts if w is not None])


def ordinalize(slots, to_ord):
    """the last non-empty slot's word takes its ordinal form to_ord(word) (None = no ordinal form -> alternative dropped,
    which the caller must exclude by a side constraint returned as second value)"""
    ne = [nonempty(a) for a in slots]
    out = []
    excluded = []
    for j, alts in enumerate(slots):
        later_empty = AND(*[NOT(x) for x in ne[j + 1:]])
        new = []
        for c, w in alts:
            if w is None:
                new.append((c, None))
                continue
            ow = to_ord(w)
            new.append((AND(c, NOT(later_empty)), w))
            if ow is None:
                excluded.append(AND(c, later_empty))
            else:
                new.append((AND(c, later_empty), ow))
        out.append([(c, w) for c, w in new if c is not False])
    return out, excluded


# ------------------------------------------------------------------------------------------------ English

def en_slots(digs, f, infl):
    slots = _en.ordinal_slots(digs, f)
    # infl 0: singular; 1: plural (fractions: 'fifths') -> the last word gets an 's'
    plural = infl == 1
    ne = [nonempty(a) for a in slots]
    out = []
    for j, alts in enumerate(slots):
        later_empty = AND(*[NOT(x) for x in ne[j + 1:]])
        new = []
        for c, w in alts:
            if w is None:
                new.append((c, None))
            else:
                new.append((AND(c, NOT(AND(later_empty, plural))), w))
                new.append((AND(c, later_empty, plural), w + 's'))
        out.append(new)
    t, u = digs.D[1], digs.D[0]
    mk = []
    for cond, m in _en.ordinal_marker(digs):
        mk.append((AND(cond, NOT(plural)), m))
        mk.append((AND(cond, plural), m + 's'))
    return out, mk, [infl == 0]     # English ordinals do not inflect; the plural (fraction) forms are left out


# ------------------------------------------------------------------------------------------------ French

FR_ORD = {'un': 'unième', 'deux': 'deuxième', 'trois': 'troisième', 'quatre': 'quatrième', 'cinq': 'cinquième',
          'six': 'sixième', 'sept': 'septième', 'huit': 'huitième', 'neuf': 'neuvième', 'dix': 'dixième', 'onze': 'onzième',
          'douze': 'douzième', 'treize': 'treizième', 'quatorze': 'quatorzième', 'quinze': 'quinzième', 'seize': 'seizième',
          'vingt': 'vingtième', 'vingts': 'vingtième', 'trente': 'trentième', 'quarante': 'quarantième',
          'cinquante': 'cinquantième', 'soixante': 'soixantième', 'septante': 'septantième', 'huitante': 'huitantième',
          'octante': 'octantième', 'nonante': 'nonantième', 'cent': 'centième', 'cents': 'centième', 'mille': 'millième',
          'million': 'millionième', 'millions': 'millionième', 'milliard': 'milliardième', 'milliards': 'milliardième'}


def fr_ord_word(w):
    parts = w.split('-')
    o = FR_ORD.get(parts[-1])
    if o is None:
        return None
    return '-'.join(parts[:-1] + [o])


def fr_slots(digs, f, infl):
    L = LANGS['fr']
    card = L.cardinal_slots(digs, f)[1:]     # drop the zero slot
    slots, excluded = ordinalize(card, fr_ord_word)
    one = AND(digs.D[0] == 1, *[d == 0 for d in digs.D[1:]])
    # 1: premier (0) / première (1) / premiers (2) / premières (3); others: -ième (0,1) / -ièmes (2,3)
    plural = z3.UGE(infl, 2)
    fem = OR(infl == 1, infl == 3)
    out = []
    for alts in slots:
        new = []
        for c, w in alts:
            if w is None:
                new.append((c, None))
            elif w == 'unième':
                # only reachable as the whole number when n == 1: use premier/première
                new.append((AND(c, NOT(one), NOT(plural)), w))
                new.append((AND(c, NOT(one), plural), w + 's'))
                for i, pw in enumerate(['premier', 'première', 'premiers', 'premières']):
                    new.append((AND(c, one, infl == i), pw))
            elif w.endswith('ième'):
                new.append((AND(c, NOT(plural)), w))
                new.append((AND(c, plural), w + 's'))
            else:
                new.append((c, w))
        out.append([(c, w) for c, w in new if c is not False])
    mk = [(AND(NOT(one), NOT(plural)), 'ème'), (AND(NOT(one), plural), 'èmes'), (AND(one, infl == 0), 'er'),
          (AND(one, infl == 1), 'ère'), (AND(one, infl == 2), 'ers'), (AND(one, infl == 3), 'ères')]
    side = [z3.ULE(infl, 3)] + [NOT(e) for e in excluded]
    return out, mk, side


# ------------------------------------------------------------------------------------------------ German

DE_ORD_UNITS = [None, 'erste', 'zweite', 'dritte', 'vierte', 'fünfte', 'sechste', 'siebte', 'achte', 'neunte']
DE_ENDINGS = ['te', 'ter', 'tes', 'ten', 'tem']


def de_below100_ord(L, r):
    if r == 0:
        return None
    if r < 10:
        return DE_ORD_UNITS[r]
    if r < 20:
        return L.TEENS[r - 10] + 'te'
    t, u = divmod(r, 10)
    if u == 0:
        return L.TENS[t] + 'ste'
    return L.UNITS[u] + 'und' + L.TENS[t] + 'ste'


def de_compound_ord(L, g, einh, ss=False):
    h, r = divmod(g, 100)
    w = ''
    if h:
        w += (('ein' if einh else '') + 'hundert') if h == 1 else L.UNITS[h] + 'hundert'
    if r == 0:
        w += 'ste'
    else:
        w += de_below100_ord(L, r)
    if ss:
        w = w.replace('ß', 'ss')
    return w


def de_slots(digs, f, infl):
    """n < 10^6: [thousands compound][units compound]; the last non-empty one is ordinal.  infl: declension ending"""
    L = LANGS['de']
    variants = [(e, s) for e in (False, True) for s in (False, True)]

    def alts_for(k, fn):
        alts = []
        for v in range(1, 1000):
            words = {}
            for e, s in variants:
                words.setdefault(fn(v, e, s), []).append((e, s))
            c = digs.group_is(k, v)
            if len(words) == 1:
                alts.append((c, next(iter(words))))
            else:
                for w, vs in words.items():
                    guard = OR(*[AND(f['einh'] if e else NOT(f['einh']), f['ss'] if s else NOT(f['ss'])) for e, s in vs])
                    alts.append((AND(c, guard), w))
        return alts
    g0_zero = digs.group_is(0, 0)
    one1 = digs.group_is(1, 1)
    # thousands word: cardinal if units follow, else ordinal "…tausendste"
    t_card = alts_for(1, lambda v, e, s: L.compound(v, False, e, s) + 'tausend')
    t_ord = alts_for(1, lambda v, e, s: L.compound(v, False, e, s) + 'tausendste')
    th = []
    for (c, w), (c2, w2) in zip(t_card, t_ord):
        th.append((AND(c, NOT(one1), NOT(g0_zero)), w))
        th.append((AND(c2, NOT(one1), g0_zero), w2))
    th += [(AND(one1, f['eint'], NOT(g0_zero)), 'eintausend'), (AND(one1, NOT(f['eint']), NOT(g0_zero)), 'tausend'),
           (AND(one1, f['eint'], g0_zero), 'eintausendste'), (AND(one1, NOT(f['eint']), g0_zero), 'tausendste')]
    un = alts_for(0, lambda v, e, s: de_compound_ord(L, v, e, s))
    slots = [slot(th, none_if=digs.group_is(1, 0)), slot(un, none_if=g0_zero)]
    # declension: the final 'te' of the last word becomes te/ter/tes/ten/tem
    ne = [nonempty(a) for a in slots]
    out = []
    for j, alts in enumerate(slots):
        later_empty = AND(*[NOT(x) for x in ne[j + 1:]])
        new = []
        for c, w in alts:
            if w is None:
                new.append((c, None))
            elif w.endswith('te'):
                for i, en_ in enumerate(DE_ENDINGS):
                    new.append((AND(c, infl == i), w[:-2] + en_))
            else:
                new.append((c, w))
        out.append([(c, w) for c, w in new if c is not False])
    return out, [(True, '.')], [z3.ULE(infl, len(DE_ENDINGS) - 1)]


# ------------------------------------------------------------------------------------------------ Dutch

NL_ORD_UNITS = [None, 'eerste', 'tweede', 'derde', 'vierde', 'vijfde', 'zesde', 'zevende', 'achtste', 'negende']


def nl_below100_ord(L, r):
    if r == 0:
        return None
    if r < 10:
        return NL_ORD_UNITS[r]
    if r < 20:
        base = L.TEENS[r - 10]
        return base + 'de'
    t, u = divmod(r, 10)
    if u == 0:
        return L.TENS[t] + 'ste'
    link = 'ën' if L.UNITS[u].endswith('e') else 'en'
    return L.UNITS[u] + link + L.TENS[t] + 'ste'


def nl_compound_ord(L, g):
    h, r = divmod(g, 100)
    w = ''
    if h:
        w += 'honderd' if h == 1 else L.UNITS[h] + 'honderd'
    if r == 0:
        return w + 'ste'
    return w + nl_below100_ord(L, r)


def nl_slots(digs, f, infl):
    L = LANGS['nl']
    g0_zero = digs.group_is(0, 0)
    one1 = digs.group_is(1, 1)
    th = []
    for c, w in _compound_slot(digs, 1, L.compound):
        th.append((AND(c, NOT(one1), NOT(g0_zero)), w + 'duizend'))
        th.append((AND(c, NOT(one1), g0_zero), w + 'duizendste'))
    th += [(AND(one1, NOT(g0_zero)), 'duizend'), (AND(one1, g0_zero), 'duizendste')]
    un = _compound_slot(digs, 0, lambda v: nl_compound_ord(L, v))
    return [slot(th, none_if=digs.group_is(1, 0)), slot(un, none_if=g0_zero)], [(True, 'e')], [infl == 0]


# ------------------------------------------------------------------------------------------------ Italian

IT_ORD_UNITS = [None, 'primo', 'secondo', 'terzo', 'quarto', 'quinto', 'sesto', 'settimo', 'ottavo', 'nono', 'decimo']
IT_END = ['o', 'a', 'i', 'e']


def it_ord_from_cardinal(word):
    """undici -> undicesimo, ventitré -> ventitreesimo, ventisei -> ventiseiesimo, cento -> centesimo, mille -> millesimo"""
    if word.endswith('tré'):
        return word[:-3] + 'treesimo'
    if word.endswith('sei'):
        return word + 'esimo'
    if word.endswith('mila'):
        return word[:-4] + 'millesimo'
    return word[:-1] + 'esimo'


def it_compound_ord(L, g, elide=True):
    if g <= 10:
        return IT_ORD_UNITS[g]
    return it_ord_from_cardinal(L.compound(g, elide))


def it_slots(digs, f, infl):
    L = LANGS['it']
    g0_zero = digs.group_is(0, 0)
    one1 = digs.group_is(1, 1)
    th = []
    for c, w in L.comp_alts(digs, 1, f):
        th.append((AND(c, NOT(one1), NOT(g0_zero)), w + 'mila'))
        th.append((AND(c, NOT(one1), g0_zero), w + 'millesimo'))
    th += [(AND(one1, NOT(g0_zero)), 'mille'), (AND(one1, g0_zero), 'millesimo')]
    un = []
    for v in range(1, 1000):
        a, b = it_compound_ord(L, v, True), it_compound_ord(L, v, False)
        c = digs.group_is(0, v)
        if a == b:
            un.append((c, a))
        else:
            un.append((AND(c, f['elide']), a))
            un.append((AND(c, NOT(f['elide'])), b))
    slots = [slot(th, none_if=digs.group_is(1, 0)), slot(un, none_if=g0_zero)]
    out = []
    for alts in slots:
        new = []
        for c, w in alts:
            if w is None or not (w.endswith('esimo') or w in IT_ORD_UNITS):
                new.append((c, w))
            else:
                for i, e in enumerate(IT_END):
                    new.append((AND(c, infl == i), w[:-1] + e))
        out.append([(c, w) for c, w in new if c is not False])
    mk = [(OR(infl == 0, infl == 2), 'º'), (OR(infl == 1, infl == 3), 'ª')]
    h0, t0, u0 = digs.group(0)
    side = [z3.ULE(infl, 3),
            # left out (doubtful or single-word-only forms): x10th above 100 ("centodecimo"/"centodiecesimo"), and ranks
            # with both a thousands part and a units part of at most ten ("milleunesimo" is written as one word)
            NOT(AND(h0 != 0, t0 == 1, u0 == 0)),
            OR(digs.group_is(1, 0), g0_zero, h0 != 0, z3.UGE(t0, 2), AND(t0 == 1, u0 != 0))]
    return out, mk, side


# ------------------------------------------------------------------------------------------------ Spanish / Portuguese

ES_U = [None, 'primero', 'segundo', 'tercero', 'cuarto', 'quinto', 'sexto', 'séptimo', 'octavo', 'noveno']
ES_T = [None, 'décimo', 'vigésimo', 'trigésimo', 'cuadragésimo', 'quincuagésimo', 'sexagésimo', 'septuagésimo',
        'octogésimo', 'nonagésimo']
ES_H = [None, 'centésimo', 'ducentésimo', 'tricentésimo', 'cuadringentésimo', 'quingentésimo', 'sexcentésimo',
        'septingentésimo', 'octingentésimo', 'noningentésimo']
PT_U = [None, 'primeiro', 'segundo', 'terceiro', 'quarto', 'quinto', 'sexto', 'sétimo', 'oitavo', 'nono']
PT_T = [None, 'décimo', 'vigésimo', 'trigésimo', 'quadragésimo', 'quinquagésimo', 'sexagésimo', 'septuagésimo',
        'octogésimo', 'nonagésimo']
PT_H = [None, 'centésimo', 'ducentésimo', 'trecentésimo', 'quadringentésimo', 'quingentésimo', 'sexcentésimo',
        'septingentésimo', 'octingentésimo', 'nongentésimo']


def romance_slots(digs, infl, U, T, H, thousand, endings, markers):
    """n in [1,1999]: [milésimo][hundreds][tens][units], every word inflected alike"""
    d3, h, t, u = digs.D[3], digs.D[2], digs.D[1], digs.D[0]
    slots = [slot([(d3 == 1, thousand)]), slot(by_digit(h, H)), slot(by_digit(t, T)), slot(by_digit(u, U))]
    out = []
    for alts in slots:
        new = []
        for c, w in alts:
            if w is None:
                new.append((c, None))
            else:
                for i, e in enumerate(endings):
                    new.append((AND(c, infl == i), w[:-1] + e))
        out.append(new)
    mk = [(infl == i, m) for i, m in enumerate(markers)]
    return out, mk, [z3.ULE(infl, len(endings) - 1), z3.ULE(d3, 1)] + [d == 0 for d in digs.D[4:]]


def es_slots(digs, f, infl):
    return romance_slots(digs, infl, ES_U, ES_T, ES_H, 'milésimo', ['o', 'a', 'os', 'as'], ['º', 'ª', 'ᵒˢ', 'ᵃˢ'])


def pt_slots(digs, f, infl):
    return romance_slots(digs, infl, PT_U, PT_T, PT_H, 'milésimo', ['o', 'a', 'os', 'as'], ['º', 'ª', 'ᵒˢ', 'ᵃˢ'])


ORDINALS = {'en': en_slots, 'fr': fr_slots, 'de': de_slots, 'nl': nl_slots, 'it': it_slots, 'es': es_slots, 'pt': pt_slots}
MAX_DIGITS = {'en': 6, 'fr': 6, 'de': 6, 'nl': 6, 'it': 6, 'es': 4, 'pt': 4}

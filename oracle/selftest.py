"""Sanity of the reference spellers against the native library on random numbers (development aid; not a check)."""
import random
import sys
import z3
sys.path.insert(0, '/verif')
from oracle.base import Digits, concrete_phrase
from oracle.langs import LANGS
from mirsym.native import Native


def model_for(digs, n, flags, fvals):
    s = z3.Solver()
    for i, d in enumerate(digs.D):
        s.add(d == (n // 10 ** i) % 10)
    for k, v in fvals.items():
        s.add(flags[k] == v)
    assert s.check() == z3.sat
    return s.model()


def main():
    rnd = random.Random(int(sys.argv[2]) if len(sys.argv) > 2 else 1)
    codes = sys.argv[1].split(',') if len(sys.argv) > 1 else list(LANGS)
    nat = Native()
    for code in codes:
        L = LANGS[code]
        digs = Digits(12)
        f = L.flags()
        slots = L.cardinal_slots(digs, f)
        side = L.side_constraints(digs, f)
        bad = 0
        tried = 0
        samples = [0, 1, 2, 10, 11, 21, 80, 81, 88, 100, 101, 111, 180, 181, 188, 200, 1000, 1001, 1100, 2000, 21000, 100000,
                   1000000, 2000000, 21000000, 1000000000, 2000000000, 999999999999, 101000, 1000001, 300, 3, 103, 23]
        for _ in range(400):
            nd = rnd.randint(1, 12)
            samples.append(rnd.randrange(10 ** nd))
        seen = set()
        for n in samples:
            fvals = {k: rnd.random() < 0.5 for k in f}
            s = z3.Solver()
            for i, d in enumerate(digs.D):
                s.add(d == (n // 10 ** i) % 10)
            for k, v in fvals.items():
                s.add(f[k] == v)
            for c in side:
                s.add(c)
            if s.check() != z3.sat:
                continue
            m = s.model()
            words = concrete_phrase(slots, m)
            text = ' '.join(words)
            if (n, text) in seen:
                continue
            seen.add((n, text))
            tried += 1
            r = nat.t2d(code, text)
            got = r.get('ok', {}).get('Ok') if 'ok' in r else None
            if got != str(n):
                bad += 1
                if bad <= 25:
                    print(code, n, repr(text), '->', r.get('ok', r))
        print(code, 'tried', tried, 'mismatches', bad)


main()

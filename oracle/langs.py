"""Reference spellers for the seven languages (cardinals).  Written from the grammars of the languages; only forms
that are plain standard orthography (or shown as accepted by the repository's own documentation/tests) are produced.
Everything doubtful is left out and named in OUTSIDE so that a check never alarms on correct code.

Interface (per language object L):
  L.code, L.type_name, L.ngroups
  L.flags() -> dict name -> z3 Bool (orthographic variants)
  L.cardinal_slots(digs, f) -> list of slots
  L.side_constraints(digs, f) -> list of z3 constraints restricting the claim (forms left out), with L.OUTSIDE text
  L.zero, L.conj, L.decimal_sep, L.decimal_mark, L.ordinary (non-number context words)
"""
import z3
from .base import *
from . import en as _en


class English:
    code, type_name, ngroups = 'en', 'English', 4
    zero, conj, decimal_sep, decimal_mark = 'zero', 'and', 'point', '.'
    zero_words = ['zero', 'o', 'nought']
    ordinary = ['cows', 'the', 'potatoes']
    OUTSIDE = ['"eleven hundred" style, bare "hundred"/"thousand" without "one", plural scale words']

    def flags(self):
        return _en.flags()

    def cardinal_slots(self, digs, f):
        return _en.cardinal_slots(digs, f)

    def side_constraints(self, digs, f):
        return []

    def digit_words(self):
        return ['zero', 'one', 'two', 'three', 'four', 'five', 'six', 'seven', 'eight', 'nine']


# ---------------------------------------------------------------------------------------------- French

class French:
    code, type_name, ngroups = 'fr', 'French', 4
    zero, conj, decimal_sep, decimal_mark = 'zéro', 'et', 'virgule', ','
    zero_words = ['zéro']
    ordinary = ['vaches', 'les', 'pommes']
    OUTSIDE = ['1990 orthography hyphenating across cent/mille ("deux-cent-un")', '"dix-neuf cent" year style',
               'mixed hyphen/space inside one tens-units block']
    UNITS = [None, 'un', 'deux', 'trois', 'quatre', 'cinq', 'six', 'sept', 'huit', 'neuf']
    TEENS = ['dix', 'onze', 'douze', 'treize', 'quatorze', 'quinze', 'seize', 'dix-sept', 'dix-huit', 'dix-neuf']
    TENS = [None, None, 'vingt', 'trente', 'quarante', 'cinquante', 'soixante']
    SCALES = [None, 'mille', 'million', 'milliard']

    def flags(self):
        f = {'sept': z3.Bool('fr_septante'), 'huit': z3.Bool('fr_huitante'), 'oct': z3.Bool('fr_octante'),
             'non': z3.Bool('fr_nonante')}
        for k in range(4):
            f['hy%d' % k] = z3.Bool('fr_hy%d' % k)
        return f

    def block_words(self, t, u, regional, plural80):
        """words of the tens-units block for concrete t,u.  regional: dict of python bools (sept, huit, oct, non).
        plural80: python bool - 'quatre-vingts' takes its s"""
        U, T = self.UNITS, self.TEENS
        if t == 0:
            return [U[u]] if u else []
        if t == 1:
            return T[u].split('-')
        if 2 <= t <= 6:
            if u == 0:
                return [self.TENS[t]]
            if u == 1:
                return [self.TENS[t], 'et', 'un']
            return [self.TENS[t], U[u]]
        if t == 7:
            if regional['sept']:
                if u == 0:
                    return ['septante']
                if u == 1:
                    return ['septante', 'et', 'un']
                return ['septante', U[u]]
            if u == 1:
                return ['soixante', 'et', 'onze']
            return ['soixante'] + T[u].split('-')
        if t == 8:
            for key, w in (('huit', 'huitante'), ('oct', 'octante')):
                if regional[key]:
                    if u == 0:
                        return [w]
                    if u == 1:
                        return [w, 'et', 'un']
                    return [w, U[u]]
            if u == 0:
                return ['quatre', 'vingts' if plural80 else 'vingt']
            return ['quatre', 'vingt', U[u]]
        if t == 9:
            if regional['non']:
                if u == 0:
                    return ['nonante']
                if u == 1:
                    return ['nonante', 'et', 'un']
                return ['nonante', U[u]]
            return ['quatre', 'vingt'] + T[u].split('-')
        raise AssertionError

    def group_slots(self, digs, k, f):
        h, t, u = digs.group(k)
        hy = f['hy%d' % k]
        s = []
        # hundreds: "cent" / "deux cents" / "deux cent un" ; never "un cent"
        s.append(slot(by_digit(h, [None, None] + self.UNITS[2:])))
        plural_ok = (k != 1)      # before "mille" cent and vingt stay invariable
        plural_c = AND(z3.UGE(h, 2), t == 0, u == 0) if plural_ok else False
        s.append(slot([(AND(h != 0, NOT(plural_c)), 'cent'), (plural_c, 'cents')]))
        # tens-units block: up to 4 word positions (space variant) or one hyphenated token
        regs = []
        for sv in (False, True):
            for hv, ov in ((False, False), (True, False), (False, True)):
                for nv in (False, True):
                    regs.append({'sept': sv, 'huit': hv, 'oct': ov, 'non': nv})
        pos_alts = [[] for _ in range(4)]
        hy_alts = []
        for tv in range(10):
            for uv in range(10):
                if tv == 0 and uv == 0:
                    continue
                if k >= 1 and tv == 0 and uv == 1:
                    pass    # "un million"; for k == 1 (mille) a lone group value 1 is handled below
                for r in regs:
                    # only regional flags that matter for this t are constrained
                    conds = [t == tv, u == uv]
                    if tv == 7:
                        conds.append(f['sept'] if r['sept'] else NOT(f['sept']))
                        if r['huit'] or r['oct'] or r['non']:
                            continue
                    elif tv == 8:
                        if r['sept'] or r['non']:
                            continue
                        conds.append(f['huit'] if r['huit'] else NOT(f['huit']))
                        conds.append(f['oct'] if r['oct'] else NOT(f['oct']))
                    elif tv == 9:
                        conds.append(f['non'] if r['non'] else NOT(f['non']))
                        if r['sept'] or r['huit'] or r['oct']:
                            continue
                    else:
                        if r['sept'] or r['huit'] or r['oct'] or r['non']:
                            continue
                    plural80 = plural_ok
                    words = self.block_words(tv, uv, r, plural80)
                    c = AND(*conds)
                    if len(words) == 1:
                        pos_alts[0].append((c, words[0]))
                    else:
                        for j, w in enumerate(words):
                            pos_alts[j].append((AND(c, NOT(hy)), w))
                        hy_alts.append((AND(c, hy), '-'.join(words)))
        # "mille" alone for 1000: no "un" in group 1 when the group value is exactly 1
        if k == 1:
            lone_one = AND(h == 0, t == 0, u == 1)
            pos_alts[0] = [(AND(c, NOT(lone_one)), w) for c, w in pos_alts[0]]
        s.append(slot(pos_alts[0] + hy_alts))
        for j in (1, 2, 3):
            s.append(slot(pos_alts[j]))
        return s

    def cardinal_slots(self, digs, f):
        slots = [slot([(digs.is_zero(), self.zero)])]
        for k in range(3, -1, -1):
            slots += self.group_slots(digs, k, f)
            if k == 1:
                slots.append(slot([(digs.group_nonzero(1), 'mille')]))
            elif k >= 2:
                one = digs.group_is(k, 1)
                slots.append(slot([(one, self.SCALES[k]), (AND(digs.group_nonzero(k), NOT(one)), self.SCALES[k] + 's')]))
        return slots

    def side_constraints(self, digs, f):
        # at most one regional word for 80
        return [NOT(AND(f['huit'], f['oct']))]

    def digit_words(self):
        return ['zéro'] + self.UNITS[1:]


# ---------------------------------------------------------------------------------------------- Spanish

class Spanish:
    code, type_name, ngroups = 'es', 'Spanish', 4
    zero, conj, decimal_sep, decimal_mark = 'cero', 'y', 'coma', ','
    zero_words = ['cero']
    ordinary = ['vacas', 'las', 'patatas']
    OUTSIDE = ['feminine hundreds (doscientas)', 'unaccented variants']
    UNITS = [None, 'uno', 'dos', 'tres', 'cuatro', 'cinco', 'seis', 'siete', 'ocho', 'nueve']
    TEENS = ['diez', 'once', 'doce', 'trece', 'catorce', 'quince', 'dieciséis', 'diecisiete', 'dieciocho', 'diecinueve']
    VEINTI = ['veinte', 'veintiuno', 'veintidós', 'veintitrés', 'veinticuatro', 'veinticinco', 'veintiséis',
              'veintisiete', 'veintiocho', 'veintinueve']
    TENS = [None, None, None, 'treinta', 'cuarenta', 'cincuenta', 'sesenta', 'setenta', 'ochenta', 'noventa']
    HUND = [None, 'ciento', 'doscientos', 'trescientos', 'cuatrocientos', 'quinientos', 'seiscientos', 'setecientos',
            'ochocientos', 'novecientos']

    def flags(self):
        return {}

    def group_slots(self, digs, k, f, apocope):
        """apocope: python bool - the group is followed by mil/millones, so uno -> un, veintiuno -> veintiún"""
        h, t, u = digs.group(k)
        s = []
        cien = AND(h == 1, t == 0, u == 0)
        s.append(slot([(cien, 'cien')] + [(AND(h == v, NOT(cien)), self.HUND[v]) for v in range(1, 10)]))
        alts = by_digit(u, self.TEENS, t == 1)
        veinti = list(self.VEINTI)
        if apocope:
            veinti[1] = 'veintiún'
        alts += by_digit(u, veinti, t == 2)
        for tv in range(3, 10):
            alts.append((t == tv, self.TENS[tv]))
        s.append(slot(alts))
        s.append(slot([(AND(z3.UGE(t, 3), u != 0), 'y')]))
        units = list(self.UNITS)
        if apocope:
            units[1] = 'un'
        ualts = by_digit(u, units, OR(t == 0, z3.UGE(t, 3)))
        if k in (1, 3):
            # "mil", never "un mil"
            lone_one = AND(h == 0, t == 0, u == 1)
            ualts = [(AND(c, NOT(lone_one)), w) for c, w in ualts]
        s.append(slot(ualts))
        return s

    def cardinal_slots(self, digs, f):
        slots = [slot([(digs.is_zero(), self.zero)])]
        slots += self.group_slots(digs, 3, f, True)
        slots.append(slot([(digs.group_nonzero(3), 'mil')]))
        slots += self.group_slots(digs, 2, f, True)
        millions = OR(digs.group_nonzero(3), digs.group_nonzero(2))
        single = AND(NOT(digs.group_nonzero(3)), digs.group_is(2, 1))
        slots.append(slot([(single, 'millón'), (AND(millions, NOT(single)), 'millones')]))
        slots += self.group_slots(digs, 1, f, True)
        slots.append(slot([(digs.group_nonzero(1), 'mil')]))
        slots += self.group_slots(digs, 0, f, False)
        return slots

    def side_constraints(self, digs, f):
        return []

    def digit_words(self):
        return ['cero'] + self.UNITS[1:]


# ---------------------------------------------------------------------------------------------- Portuguese

class Portuguese:
    code, type_name, ngroups = 'pt', 'Portuguese', 4
    zero, conj, decimal_sep, decimal_mark = 'zero', 'e', 'vírgula', ','
    zero_words = ['zero']
    ordinary = ['vacas', 'os', 'batatas']
    OUTSIDE = ['feminine forms (duas, duzentas)', 'use of "e" between groups other than before the last group of a '
               'thousands/millions block when that group is below 100 or a multiple of 100']
    UNITS = [None, 'um', 'dois', 'três', 'quatro', 'cinco', 'seis', 'sete', 'oito', 'nove']
    TEENS_PT = ['dez', 'onze', 'doze', 'treze', 'catorze', 'quinze', 'dezasseis', 'dezassete', 'dezoito', 'dezanove']
    TEENS_BR = ['dez', 'onze', 'doze', 'treze', 'quatorze', 'quinze', 'dezesseis', 'dezessete', 'dezoito', 'dezenove']
    TENS = [None, None, 'vinte', 'trinta', 'quarenta', 'cinquenta', 'sessenta', 'setenta', 'oitenta', 'noventa']
    HUND = [None, 'cento', 'duzentos', 'trezentos', 'quatrocentos', 'quinhentos', 'seiscentos', 'setecentos',
            'oitocentos', 'novecentos']

    def flags(self):
        return {'br': z3.Bool('pt_br')}

    def group_slots(self, digs, k, f):
        h, t, u = digs.group(k)
        s = []
        cem = AND(h == 1, t == 0, u == 0)
        s.append(slot([(cem, 'cem')] + [(AND(h == v, NOT(cem)), self.HUND[v]) for v in range(1, 10)]))
        s.append(slot([(AND(h != 0, OR(t != 0, u != 0)), 'e')]))
        alts = []
        for uv in range(10):
            if self.TEENS_PT[uv] == self.TEENS_BR[uv]:
                alts.append((AND(t == 1, u == uv), self.TEENS_PT[uv]))
            else:
                alts.append((AND(t == 1, u == uv, NOT(f['br'])), self.TEENS_PT[uv]))
                alts.append((AND(t == 1, u == uv, f['br']), self.TEENS_BR[uv]))
        for tv in range(2, 10):
            alts.append((t == tv, self.TENS[tv]))
        s.append(slot(alts))
        s.append(slot([(AND(z3.UGE(t, 2), u != 0), 'e')]))
        ualts = by_digit(u, self.UNITS, OR(t == 0, z3.UGE(t, 2)))
        if k in (1, 3):
            lone_one = AND(h == 0, t == 0, u == 1)
            ualts = [(AND(c, NOT(lone_one)), w) for c, w in ualts]
        s.append(slot(ualts))
        return s

    def junction_e(self, digs, upper_nonzero, k, is_last):
        """'e' before group k: the group is the last of its block, something precedes it, and it is < 100 or a
        multiple of 100"""
        h, t, u = digs.group(k)
        small_or_round = OR(h == 0, AND(t == 0, u == 0))
        return AND(upper_nonzero, digs.group_nonzero(k), small_or_round, is_last)

    def cardinal_slots(self, digs, f):
        slots = [slot([(digs.is_zero(), self.zero)])]
        br = f['br']
        # block of millions: [g3 mil] [e] g2 milhões      (pt)   |   g3 bilhões [e] g2 milhões   (br)
        slots += self.group_slots(digs, 3, f)
        one3 = digs.group_is(3, 1)
        slots.append(slot([(AND(digs.group_nonzero(3), NOT(br)), 'mil'),
                           (AND(one3, br), 'bilhão'), (AND(digs.group_nonzero(3), NOT(one3), br), 'bilhões')]))
        # in the pt form g2 closes the millions block -> junction rule; in the br form bilhões/milhões are separate
        # groups and the rule applies before g2 only if everything below is zero
        lower_zero_2 = AND(NOT(digs.group_nonzero(1)), NOT(digs.group_nonzero(0)))
        slots.append(slot([(self.junction_e(digs, digs.group_nonzero(3), 2, OR(NOT(br), lower_zero_2)), 'e')]))
        slots += self.group_slots(digs, 2, f)
        millions = OR(AND(digs.group_nonzero(3), NOT(br)), digs.group_nonzero(2))
        single = AND(OR(NOT(digs.group_nonzero(3)), br), digs.group_is(2, 1))
        slots.append(slot([(single, 'milhão'), (AND(millions, NOT(single)), 'milhões')]))
        slots += self.group_slots(digs, 1, f)
        slots.append(slot([(digs.group_nonzero(1), 'mil')]))
        slots.append(slot([(self.junction_e(digs, OR(digs.group_nonzero(1), digs.group_nonzero(2), digs.group_nonzero(3)),
                                            0, True), 'e')]))
        slots += self.group_slots(digs, 0, f)
        return slots

    def side_constraints(self, digs, f):
        # "mil milhões" with a zero g2 ("dois mil milhões") is fine; but when the millions block is only g3 the
        # scale word milhões follows "mil" directly -- standard.  No restriction.
        return []

    def digit_words(self):
        return ['zero'] + self.UNITS[1:]


# ---------------------------------------------------------------------------------------------- compound languages

def _compound_slot(digs, k, fn, guard=True):
    """999 alternatives: group k == v -> fn(v) (None = no alternative)"""
    alts = []
    for v in range(1, 1000):
        w = fn(v)
        if w is not None:
            alts.append((AND(guard, digs.group_is(k, v)), w))
    return alts


class German:
    code, type_name, ngroups = 'de', 'German', 4
    zero, conj, decimal_sep, decimal_mark = 'null', 'und', 'komma', ','
    zero_words = ['null']
    ordinary = ['kühe', 'die', 'kartoffeln']
    OUTSIDE = ['single-word compounds above 999 999 ("zweitausenddreihundert" is covered only as "zweitausend dreihundert")',
               'million/milliard groups whose value ends in 01 other than 1 itself ("hunderteine Million")',
               'split forms ("ein und zwanzig")']
    UNITS = [None, 'ein', 'zwei', 'drei', 'vier', 'fünf', 'sechs', 'sieben', 'acht', 'neun']
    TEENS = ['zehn', 'elf', 'zwölf', 'dreizehn', 'vierzehn', 'fünfzehn', 'sechzehn', 'siebzehn', 'achtzehn', 'neunzehn']
    TENS = [None, None, 'zwanzig', 'dreißig', 'vierzig', 'fünfzig', 'sechzig', 'siebzig', 'achtzig', 'neunzig']

    def flags(self):
        return {'einh': z3.Bool('de_einhundert'), 'eint': z3.Bool('de_eintausend'), 'ss': z3.Bool('de_ss'),
                'split_t': z3.Bool('de_split_tausend')}

    def below100(self, r, final):
        if r == 0:
            return ''
        if r == 1:
            return 'eins' if final else 'ein'
        if r < 10:
            return self.UNITS[r]
        if r < 20:
            return self.TEENS[r - 10]
        t, u = divmod(r, 10)
        if u == 0:
            return self.TENS[t]
        return self.UNITS[u] + 'und' + self.TENS[t]

    def compound(self, g, final, einh, ss=False):
        """1..999 as one word.  final: the word ends the number (eins) ; einh: 'einhundert' instead of 'hundert'"""
        h, r = divmod(g, 100)
        w = ''
        if h:
            w += ('ein' if einh else '') + 'hundert' if h == 1 else self.UNITS[h] + 'hundert'
        w += self.below100(r, final)
        if ss:
            w = w.replace('ß', 'ss')
        return w

    def cardinal_slots(self, digs, f):
        slots = [slot([(digs.is_zero(), self.zero)])]
        variants = [(e, s) for e in (False, True) for s in (False, True)]

        def comp_alts(k, final, suffix=''):
            alts = []
            for v in range(1, 1000):
                words = {}
                for e, s in variants:
                    w = self.compound(v, final, e, s) + suffix
                    words.setdefault(w, []).append((e, s))
                c = digs.group_is(k, v)
                if len(words) == 1:
                    alts.append((c, next(iter(words))))
                    continue
                for w, vs in words.items():
                    guard = OR(*[AND(f['einh'] if e else NOT(f['einh']), f['ss'] if s else NOT(f['ss'])) for e, s in vs])
                    alts.append((AND(c, guard), w))
            return alts
        for k, sing, plur in ((3, 'milliarde', 'milliarden'), (2, 'million', 'millionen')):
            one = digs.group_is(k, 1)
            slots.append(slot([(one, 'eine')] + [(AND(c, NOT(one)), w) for c, w in comp_alts(k, False)],
                              none_if=digs.group_is(k, 0)))
            slots.append(slot([(one, sing), (AND(digs.group_nonzero(k), NOT(one)), plur)]))
        # thousands: joined "zweitausend" or split "zwei tausend"; 1000 = "tausend" / "eintausend"
        one = digs.group_is(1, 1)
        joined = [(AND(c, NOT(one), NOT(f['split_t'])), w) for c, w in comp_alts(1, False, 'tausend')]
        joined += [(AND(one, f['eint']), 'eintausend'), (AND(one, NOT(f['eint'])), 'tausend')]
        split = [(AND(c, NOT(one), f['split_t']), w) for c, w in comp_alts(1, False)]
        slots.append(slot(joined + split, none_if=digs.group_is(1, 0)))
        slots.append(slot([(AND(digs.group_nonzero(1), NOT(one), f['split_t']), 'tausend')]))
        slots.append(slot(comp_alts(0, True), none_if=digs.group_is(0, 0)))
        return slots

    def side_constraints(self, digs, f):
        cs = []
        for k in (2, 3):
            h, t, u = digs.group(k)
            cs.append(NOT(AND(t == 0, u == 1, h != 0)))     # x01 millions: outside the claim
        # the 'eine' alternative replaces the compound for value 1: remove the duplicate compound alternative
        return cs

    def digit_words(self):
        return ['null', 'eins'] + self.UNITS[2:]


class Dutch:
    code, type_name, ngroups = 'nl', 'Dutch', 4
    zero, conj, decimal_sep, decimal_mark = 'nul', 'en', 'komma', ','
    zero_words = ['nul']
    ordinary = ['koeien', 'de', 'aardappelen']
    OUTSIDE = ['"elfhonderd" style for 1100-9900', 'single-word compounds across "duizend"', '"eenhonderd"/"eenduizend"']
    UNITS = [None, 'een', 'twee', 'drie', 'vier', 'vijf', 'zes', 'zeven', 'acht', 'negen']
    TEENS = ['tien', 'elf', 'twaalf', 'dertien', 'veertien', 'vijftien', 'zestien', 'zeventien', 'achttien', 'negentien']
    TENS = [None, None, 'twintig', 'dertig', 'veertig', 'vijftig', 'zestig', 'zeventig', 'tachtig', 'negentig']

    def flags(self):
        return {'acc': z3.Bool('nl_een_accent')}

    def below100(self, r):
        if r == 0:
            return ''
        if r < 10:
            return self.UNITS[r]
        if r < 20:
            return self.TEENS[r - 10]
        t, u = divmod(r, 10)
        if u == 0:
            return self.TENS[t]
        link = 'ën' if self.UNITS[u].endswith('e') else 'en'
        return self.UNITS[u] + link + self.TENS[t]

    def compound(self, g):
        h, r = divmod(g, 100)
        w = ''
        if h:
            w += 'honderd' if h == 1 else self.UNITS[h] + 'honderd'
        return w + self.below100(r)

    def cardinal_slots(self, digs, f):
        slots = [slot([(digs.is_zero(), self.zero)])]
        for k, scale in ((3, 'miljard'), (2, 'miljoen')):
            one = digs.group_is(k, 1)
            alts = [(AND(one, f['acc']), 'één')]
            alts += [(AND(c, OR(NOT(one), NOT(f['acc']))), w) for c, w in _compound_slot(digs, k, self.compound)]
            slots.append(slot(alts, none_if=digs.group_is(k, 0)))
            slots.append(slot([(digs.group_nonzero(k), scale)]))
        one = digs.group_is(1, 1)
        alts = [(one, 'duizend')]
        alts += [(AND(c, NOT(one)), w + 'duizend') for c, w in _compound_slot(digs, 1, self.compound)]
        slots.append(slot(alts, none_if=digs.group_is(1, 0)))
        slots.append(slot(_compound_slot(digs, 0, self.compound), none_if=digs.group_is(0, 0)))
        return slots

    def side_constraints(self, digs, f):
        return []

    def digit_words(self):
        return ['nul'] + self.UNITS[1:]


class Italian:
    code, type_name, ngroups = 'it', 'Italian', 4
    zero, conj, decimal_sep, decimal_mark = 'zero', 'e', 'virgola', ','
    zero_words = ['zero']
    ordinary = ['mucche', 'le', 'patate']
    OUTSIDE = ['single-word compounds across "mila" ("duemilatrecento" is covered only as "duemila trecento")',
               '"ventun milioni" (apocopated) forms']
    UNITS = [None, 'uno', 'due', 'tre', 'quattro', 'cinque', 'sei', 'sette', 'otto', 'nove']
    TEENS = ['dieci', 'undici', 'dodici', 'tredici', 'quattordici', 'quindici', 'sedici', 'diciassette', 'diciotto',
             'diciannove']
    TENS = [None, None, 'venti', 'trenta', 'quaranta', 'cinquanta', 'sessanta', 'settanta', 'ottanta', 'novanta']

    def flags(self):
        return {'elide': z3.Bool('it_centottanta')}

    def below100(self, r):
        if r == 0:
            return ''
        if r < 10:
            return self.UNITS[r]
        if r < 20:
            return self.TEENS[r - 10]
        t, u = divmod(r, 10)
        if u == 0:
            return self.TENS[t]
        tens = self.TENS[t]
        if u in (1, 8):
            tens = tens[:-1]            # ventuno, ventotto
        unit = 'tré' if u == 3 else self.UNITS[u]
        return tens + unit

    def compound(self, g, elide=True):
        h, r = divmod(g, 100)
        w = ''
        if h:
            w += 'cento' if h == 1 else self.UNITS[h] + 'cento'
        rest = self.below100(r)
        if h and r == 3:
            rest = 'tré'
        if h and elide and 80 <= r <= 89:
            w = w[:-1]                  # centottanta
        return w + rest

    def comp_alts(self, digs, k, f):
        alts = []
        for v in range(1, 1000):
            a, b = self.compound(v, True), self.compound(v, False)
            c = digs.group_is(k, v)
            if a == b:
                alts.append((c, a))
            else:
                alts.append((AND(c, f['elide']), a))
                alts.append((AND(c, NOT(f['elide'])), b))
        return alts

    def cardinal_slots(self, digs, f):
        slots = [slot([(digs.is_zero(), self.zero)])]
        for k, sing, plur in ((3, 'miliardo', 'miliardi'), (2, 'milione', 'milioni')):
            one = digs.group_is(k, 1)
            alts = [(one, 'un')] + [(AND(c, NOT(one)), w) for c, w in self.comp_alts(digs, k, f)]
            slots.append(slot(alts, none_if=digs.group_is(k, 0)))
            slots.append(slot([(one, sing), (AND(digs.group_nonzero(k), NOT(one)), plur)]))
        one = digs.group_is(1, 1)
        alts = [(one, 'mille')] + [(AND(c, NOT(one)), w + 'mila') for c, w in self.comp_alts(digs, 1, f)]
        slots.append(slot(alts, none_if=digs.group_is(1, 0)))
        slots.append(slot(self.comp_alts(digs, 0, f), none_if=digs.group_is(0, 0)))
        return slots

    def side_constraints(self, digs, f):
        return []

    def digit_words(self):
        return ['zero'] + self.UNITS[1:]


LANGS = {'en': English(), 'fr': French(), 'es': Spanish(), 'pt': Portuguese(), 'de': German(), 'nl': Dutch(),
         'it': Italian()}


# ordinal markers kept on the digit form, per language (singular/plural/gender forms), and the fraction form
ORDINAL_MARKERS = {
    'en': ['st', 'nd', 'rd', 'th', 'sts', 'nds', 'rds', 'ths'],
    'fr': ['ème', 'èmes', 'er', 'ers', 'ère', 'ères', 'e', 'es', 'nd', 'nde'],
    'es': ['º', 'ª', 'ᵒˢ', 'ᵃˢ', '.ᵉʳ'],
    'pt': ['º', 'ª', 'ᵒˢ', 'ᵃˢ'],
    'it': ['º', 'ª'],
    'de': ['.'],
    'nl': ['e', 'de', 'ste'],
}
FRACTION_PREFIX = {'es': '1/'}


# small per-language word lists covering every category of number word (quick tier of the stream checks); the
# thorough tier uses every behaviour class of the regenerated alphabet
CORE_WORDS = {
    'en': ['zero', 'one', 'two', 'nine', 'ten', 'eleven', 'twenty', 'ninety', 'twenty-one', 'hundred', 'thousand',
           'million', 'billion', 'and', 'point', 'first', 'second', 'third', 'twentieth', 'hundredth', 'thirds', 'o'],
    'fr': ['zéro', 'un', 'deux', 'neuf', 'dix', 'onze', 'vingt', 'soixante', 'quatre', 'vingt-et-un', 'cent', 'mille',
           'million', 'milliard', 'et', 'virgule', 'premier', 'deuxième', 'vingtième', 'centième', 'unième'],
    'es': ['cero', 'uno', 'un', 'dos', 'nueve', 'diez', 'once', 'veinte', 'veintiuno', 'treinta', 'ciento', 'cien',
           'doscientos', 'mil', 'millón', 'millones', 'y', 'coma', 'primero', 'segundo', 'tercera', 'vigésimo',
           'doceavo', 'primer'],
    'pt': ['zero', 'um', 'dois', 'nove', 'dez', 'onze', 'vinte', 'trinta', 'cem', 'cento', 'duzentos', 'mil', 'milhão',
           'milhões', 'e', 'vírgula', 'primeiro', 'segundo', 'vigésimo', 'décima', 'bilhões'],
    'it': ['zero', 'uno', 'un', 'due', 'nove', 'dieci', 'undici', 'venti', 'ventuno', 'cento', 'duecento', 'mille',
           'duemila', 'milione', 'milioni', 'miliardo', 'e', 'virgola', 'primo', 'secondo', 'ventesimo', 'centesimo'],
    'de': ['null', 'eins', 'ein', 'zwei', 'neun', 'zehn', 'elf', 'zwanzig', 'einundzwanzig', 'hundert', 'zweihundert',
           'tausend', 'million', 'millionen', 'milliarde', 'und', 'komma', 'erste', 'zweite', 'zwanzigste', 'hundertste'],
    'nl': ['nul', 'een', 'twee', 'negen', 'tien', 'elf', 'twintig', 'eenentwintig', 'honderd', 'duizend', 'miljoen',
           'miljard', 'en', 'komma', 'eerste', 'tweede', 'twintigste', 'honderdste', 'achtste'],
}
CORE_OTHERS = ['xyz', 'Abc', '12', 'a-b']


# one word per role for the quick tier of the stream checks C09, C10, C11 (zero, unit, unit, tens, hundred, conjunction,
# decimal separator, small ordinal, large ordinal, a linking word, an ordinary word)
QUICK_WORDS = {
    'en': ['zero', 'one', 'nine', 'twenty', 'hundred', 'and', 'point', 'first', 'twentieth', 'ah', 'xyz'],
    'fr': ['zéro', 'un', 'neuf', 'vingt', 'cent', 'et', 'virgule', 'premier', 'vingtième', 'euh', 'xyz'],
    'es': ['cero', 'uno', 'nueve', 'veinte', 'cien', 'y', 'coma', 'primero', 'vigésimo', 'pues', 'xyz'],
    'pt': ['zero', 'um', 'nove', 'vinte', 'cem', 'e', 'vírgula', 'primeiro', 'vigésimo', 'então', 'xyz'],
    'it': ['zero', 'uno', 'nove', 'venti', 'cento', 'e', 'virgola', 'primo', 'ventesimo', 'ehm', 'xyz'],
    'de': ['null', 'eins', 'neun', 'zwanzig', 'hundert', 'und', 'komma', 'erste', 'zwanzigste', 'aber', 'xyz'],
    'nl': ['nul', 'een', 'negen', 'twintig', 'honderd', 'en', 'komma', 'eerste', 'twintigste', 'dus', 'xyz'],
}

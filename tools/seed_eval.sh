#!/bin/sh
# usage: tools/seed_eval.sh <seed-dir-name> <langs|-> <check-id>...
# Evaluates a seeded change WITHOUT touching /repo: a scratch copy of /repo gets the patch and the checks run with
# VERIF_REPO pointing at the copy (same effect as `git -C /repo apply; ./check; git -C /repo checkout -- .`, but safe
# while other checks are running).  The copy and its build output are removed afterwards.
cd "$(dirname "$0")/.." || exit 2
S=$1; LANGS=$2; shift; shift
W=/tmp/seedrepo-$S
export VERIF_SCRATCH=/tmp/seedrepo-$S-scratch
mkdir -p "$VERIF_SCRATCH"
rm -rf "$W"; mkdir -p "$W"; rsync -a --exclude target --exclude .git /repo/ "$W/" || exit 2
(cd "$W" && patch -p1 -s < "/verif/seeded/$S/patch.diff") || { echo "patch does not apply"; exit 2; }
for c in "$@"; do
  echo "=== $S : $c"
  if [ "$LANGS" = "-" ]; then VERIF_REPO=$W VERIF_EVIDENCE_DIR=/tmp/seedrepo-$S-ev ./check "$c" --tier quick > /tmp/seed_${S}_$c.log 2>&1; else VERIF_LANGS=$LANGS VERIF_REPO=$W VERIF_EVIDENCE_DIR=/tmp/seedrepo-$S-ev ./check "$c" --tier quick > /tmp/seed_${S}_$c.log 2>&1; fi
  echo "exit=$?"; grep -v "^\[" /tmp/seed_${S}_$c.log | grep "violated\|VIOLATION\|INCONCL\|quick:" | head -n 8 | cut -c1-400
done
rm -rf "$W" /tmp/seedrepo-$S-ev "$VERIF_SCRATCH"

#!/bin/sh
# usage: tools/seed_eval.sh <seed-dir-name> <check-id>...   : apply the seeded change to /repo, run the checks, undo
cd "$(dirname "$0")/.." || exit 2
S=seeded/$1; shift
git -C /repo diff --quiet || { echo "/repo has uncommitted changes"; exit 2; }
git -C /repo apply "$PWD/$S/patch.diff" || exit 2
for c in "$@"; do
  echo "=== $S : $c"; ./check "$c" --tier quick 2>&1 | grep -v "^\[" | tail -n 6 | cut -c1-400; echo "exit=$?"
done
git -C /repo checkout -- .

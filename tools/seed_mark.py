#!/usr/bin/env python3
"""usage: tools/seed_mark.py <seed-prefix> <check-id> <result: detected|missed|inconclusive|neutralised> [note]
records in seeded/<seed>/meta.json which check caught the seeded change (evaluation log kept by hand in DESIGN.md)"""
import json, os, sys
root = os.path.join(os.path.dirname(os.path.abspath(__file__)), '..', 'seeded')
pref, chk, res = sys.argv[1:4]
note = sys.argv[4] if len(sys.argv) > 4 else ''
d = [x for x in sorted(os.listdir(root)) if x.startswith(pref)][0]
p = os.path.join(root, d, 'meta.json')
m = json.load(open(p))
ev = m.get('evaluations') or {}
ev[chk] = {'result': res, 'note': note} if note else {'result': res}
m['evaluations'] = ev
m['detected_by'] = sorted(k for k, v in ev.items() if v['result'] == 'detected') or None
json.dump(m, open(p, 'w'), indent=1, ensure_ascii=False)
print(d, m['detected_by'])

#!/bin/sh
# Builds the framework from files on disk only (offline): native helper (dev profile) and the MIR dump cache.
cd "$(dirname "$0")" || exit 1
export CARGO_NET_OFFLINE=true
python3-vt - <<'PY'
import sys
sys.path.insert(0, '.')
from checks.common import load_mir
from mirsym import native
native.build('dev')
mir, res, th, mh = load_mir()
print('setup ok: tree', th, 'mir', mh, 'items', len(mir.functions))
PY
[ $? -eq 0 ] || exit 1
# translator validation: the repository's own test inputs through the MIR executor must give the recorded expectations
python3-vt -m mirsym.validate || exit 1
